import T4V.Proofs.NormLayout
import T4V.Proofs.GeomParse
/-!
# Layouts of a cell expression: the source tree with a gap of blanks after every token

`LU / LI / LO` mirror `SU / SI / SO`; `toks` flattens a layout to the token list handled by
`NL.normalize_tokens`, `erase` forgets the gaps.  `canon_toks`: the canonical spelling of the tokens is the
canonical spelling `SU.chars` of the expression.
-/
namespace T4V.NL
open T4V

mutual
inductive LU | mk (first : LI) (rest : List LI)
/-- `gc`: the blanks after the `:` that precedes this intersection (unused for the first one) -/
inductive LI | mk (gc : List Char) (first : LO) (rest : List LO)
inductive LO
  | lit (l : Lit) (g : List Char)
  | par (g1 : List Char) (u : LU) (g2 : List Char)               -- `(` g1 u `)` g2
  | compl (gh g1 : List Char) (u : LU) (g2 : List Char)          -- `#` gh `(` g1 u `)` g2
  | ccell (gh : List Char) (ds : List Char) (g : List Char)      -- `#` gh n g
end

def LI.gc : LI → List Char | .mk gc _ _ => gc

mutual
def LU.toks : LU → List TChunk
  | .mk i is => i.toks ++ toksIs is
def toksIs : List LI → List TChunk
  | [] => []
  | i :: is => (.colon, i.gc) :: (i.toks ++ toksIs is)
def LI.toks : LI → List TChunk
  | .mk _ o os => o.toks ++ toksOs os
def toksOs : List LO → List TChunk
  | [] => []
  | o :: os => o.toks ++ toksOs os
def LO.toks : LO → List TChunk
  | .lit l g => [(.lit l.chars, g)]
  | .par g1 u g2 => (.op, g1) :: (u.toks ++ [(.cl, g2)])
  | .compl gh g1 u g2 => (.hash, gh) :: (.op, g1) :: (u.toks ++ [(.cl, g2)])
  | .ccell gh ds g => [(.hash, gh), (.lit ds, g)]
end

mutual
def LU.erase : LU → SU
  | .mk i is => .mk i.erase (eraseIs is)
def eraseIs : List LI → List SI
  | [] => []
  | i :: is => i.erase :: eraseIs is
def LI.erase : LI → SI
  | .mk _ o os => .mk o.erase (eraseOs os)
def eraseOs : List LO → List SO
  | [] => []
  | o :: os => o.erase :: eraseOs os
def LO.erase : LO → SO
  | .lit l _ => .lit l
  | .par _ u _ => .par u.erase
  | .compl _ _ u _ => .compl u.erase
  | .ccell _ ds _ => .ccell ds
end

-- the tokens after `subCompl`
mutual
def LU.ptoks : LU → List Tk
  | .mk i is => i.ptoks ++ ptoksIs is
def ptoksIs : List LI → List Tk
  | [] => []
  | i :: is => .colon :: (i.ptoks ++ ptoksIs is)
def LI.ptoks : LI → List Tk
  | .mk _ o os => o.ptoks ++ ptoksOs os
def ptoksOs : List LO → List Tk
  | [] => []
  | o :: os => o.ptoks ++ ptoksOs os
def LO.ptoks : LO → List Tk
  | .lit l _ => [.lit l.chars]
  | .par _ u _ => .op :: (u.ptoks ++ [.cl])
  | .compl _ _ u _ => .uop :: (u.ptoks ++ [.cl])
  | .ccell _ ds _ => [.cc ds]
end

-- every gap consists of blanks
mutual
def LU.GapsWs : LU → Prop
  | .mk i is => i.GapsWs ∧ gapsWsIs is
def gapsWsIs : List LI → Prop
  | [] => True
  | i :: is => AllWs i.gc ∧ i.GapsWs ∧ gapsWsIs is
def LI.GapsWs : LI → Prop
  | .mk _ o os => o.GapsWs ∧ gapsWsOs os
def gapsWsOs : List LO → Prop
  | [] => True
  | o :: os => o.GapsWs ∧ gapsWsOs os
def LO.GapsWs : LO → Prop
  | .lit _ g => AllWs g
  | .par g1 u g2 => AllWs g1 ∧ u.GapsWs ∧ AllWs g2
  | .compl gh g1 u g2 => AllWs gh ∧ AllWs g1 ∧ u.GapsWs ∧ AllWs g2
  | .ccell gh _ g => AllWs gh ∧ AllWs g
end

/-! ### `postToks` of the flattened layout -/

mutual
theorem LU.post : ∀ (u : LU) (rest : List Tk), postToks (u.toks.map (·.1) ++ rest) = u.ptoks ++ postToks rest
  | .mk i is, rest => by
      simp only [LU.toks, LU.ptoks, List.map_append, List.append_assoc]
      rw [LI.post i, postIs is]
theorem postIs : ∀ (is : List LI) (rest : List Tk), postToks ((toksIs is).map (·.1) ++ rest) = ptoksIs is ++ postToks rest
  | [], rest => rfl
  | i :: is, rest => by
      simp only [toksIs, ptoksIs, List.map_cons, List.map_append, List.cons_append, List.append_assoc, postToks]
      rw [LI.post i, postIs is]
theorem LI.post : ∀ (i : LI) (rest : List Tk), postToks (i.toks.map (·.1) ++ rest) = i.ptoks ++ postToks rest
  | .mk _ o os, rest => by
      simp only [LI.toks, LI.ptoks, List.map_append, List.append_assoc]
      rw [LO.post o, postOs os]
theorem postOs : ∀ (os : List LO) (rest : List Tk), postToks ((toksOs os).map (·.1) ++ rest) = ptoksOs os ++ postToks rest
  | [], rest => rfl
  | o :: os, rest => by
      simp only [toksOs, ptoksOs, List.map_append, List.append_assoc]
      rw [LO.post o, postOs os]
theorem LO.post : ∀ (o : LO) (rest : List Tk), postToks (o.toks.map (·.1) ++ rest) = o.ptoks ++ postToks rest
  | .lit l g, rest => by simp [LO.toks, LO.ptoks, postToks]
  | .par g1 u g2, rest => by
      simp only [LO.toks, LO.ptoks, List.map_cons, List.map_append, List.map_nil, List.cons_append,
        List.append_assoc, List.nil_append, postToks]
      rw [LU.post u]
      simp [postToks]
  | .compl gh g1 u g2, rest => by
      simp only [LO.toks, LO.ptoks, List.map_cons, List.map_append, List.map_nil, List.cons_append,
        List.append_assoc, List.nil_append, postToks]
      rw [LU.post u]
      simp [postToks]
  | .ccell gh ds g, rest => by simp [LO.toks, LO.ptoks, postToks]
end
end T4V.NL

namespace T4V.NL
open T4V

/-! ### the canonical spelling of the tokens is `SU.chars` -/

def sepO : Option Tk → Tk → List Char
  | some a, b => sepOf a b
  | none, _ => []

def canonFrom : Option Tk → List Tk → List Char
  | _, [] => []
  | p, t :: ts => sepO p t ++ (t.chars ++ canonFrom (some t) ts)

theorem canonT_eq : ∀ (ts : List Tk), canonT ts = canonFrom none ts
  | [] => rfl
  | [t] => by simp [canonT, canonFrom, sepO]
  | a :: b :: ts => by
      have ih := canonT_eq (b :: ts)
      have : ∀ (a : Tk) (l : List Tk), canonFrom (some a) l = (match l with | [] => [] | b :: _ => sepOf a b) ++ canonFrom none l := by
        intro a l
        cases l with
        | nil => rfl
        | cons b l' => simp [canonFrom, sepO]
      simp only [canonT, ih]
      show _ = sepO none a ++ (a.chars ++ canonFrom (some a) (b :: ts))
      rw [this a (b :: ts)]
      simp [sepO]

def lastTk (p : Option Tk) (ts : List Tk) : Option Tk := match ts.getLast? with | some t => some t | none => p

theorem lastTk_cons (p : Option Tk) (t : Tk) (ts : List Tk) : lastTk p (t :: ts) = lastTk (some t) ts := by
  cases ts with
  | nil => simp [lastTk]
  | cons d ts' =>
    cases h : (d :: ts').getLast? with
    | none => exact absurd (List.getLast?_eq_none_iff.mp h) (by simp)
    | some x => simp [lastTk, List.getLast?_cons_cons, h]

theorem canonFrom_append : ∀ (xs : List Tk) (p : Option Tk) (ys : List Tk),
    canonFrom p (xs ++ ys) = canonFrom p xs ++ canonFrom (lastTk p xs) ys
  | [], p, ys => by simp [canonFrom, lastTk]
  | t :: xs, p, ys => by
      simp only [List.cons_append, canonFrom, canonFrom_append xs (some t) ys, lastTk_cons, List.append_assoc]

-- first / last token of a layout (after `subCompl`)
mutual
def LU.firstTk : LU → Tk | .mk i _ => i.firstTk
def LI.firstTk : LI → Tk | .mk _ o _ => o.firstTk
def LO.firstTk : LO → Tk
  | .lit l _ => .lit l.chars
  | .par .. => .op
  | .compl .. => .uop
  | .ccell _ ds _ => .cc ds
end

theorem LO.first_start (o : LO) : opStart o.firstTk = true := by cases o <;> rfl
theorem LI.first_start : ∀ (i : LI), opStart i.firstTk = true | .mk _ o _ => LO.first_start o
theorem LU.first_start : ∀ (u : LU), opStart u.firstTk = true | .mk i _ => LI.first_start i

theorem sepO_start (p : Option Tk) (t : Tk) (h : opStart t = true) :
    sepO p t = (match p with | some a => if opEnd a then ['*'] else [] | none => []) := by
  cases p with
  | none => rfl
  | some a => simp [sepO, sepOf, h]

/-- a prefix of tokens whose spelling is `cs`, entered after `p` and left after a token that ends an operand -/
def Spells (p : Option Tk) (ts : List Tk) (first : Tk) (cs : List Char) : Prop :=
  canonFrom p ts = sepO p first ++ cs ∧ ∃ l, lastTk p ts = some l ∧ opEnd l = true

mutual
theorem LU.canon : ∀ (u : LU) (p : Option Tk), Spells p u.ptoks u.firstTk u.erase.chars
  | .mk i is, p => by
      obtain ⟨h1, l, hl, hle⟩ := LI.canon i p
      obtain ⟨h2, h3⟩ := canonIs is l hle
      refine ⟨?_, ?_⟩
      · simp only [LU.ptoks, LU.erase, SU.chars, LU.firstTk]
        rw [canonFrom_append, h1, hl, h2, List.append_assoc]
      · simp only [LU.ptoks]
        cases is with
        | nil => exact ⟨l, by simpa [ptoksIs] using hl, hle⟩
        | cons i' is' =>
          obtain ⟨l', hl', hle'⟩ := h3 (by simp)
          refine ⟨l', ?_, hle'⟩
          have : lastTk p (i.ptoks ++ ptoksIs (i' :: is')) = lastTk (lastTk p i.ptoks) (ptoksIs (i' :: is')) := by
            simp only [lastTk, List.getLast?_append]
            cases (ptoksIs (i' :: is')).getLast? <;> cases i.ptoks.getLast? <;> rfl
          rw [this, hl]; exact hl'
theorem canonIs : ∀ (is : List LI) (l : Tk), opEnd l = true →
    canonFrom (some l) (ptoksIs is) = charsIs (eraseIs is) ∧
    (is ≠ [] → ∃ l', lastTk (some l) (ptoksIs is) = some l' ∧ opEnd l' = true)
  | [], l, _ => ⟨rfl, fun h => absurd rfl h⟩
  | i :: is, l, hl => by
      obtain ⟨h1, l1, hl1, hle1⟩ := LI.canon i (some .colon)
      obtain ⟨h2, h3⟩ := canonIs is l1 hle1
      have hs : sepO (some .colon) i.firstTk = [] := by
        rw [sepO_start _ _ (LI.first_start i)]; rfl
      refine ⟨?_, fun _ => ?_⟩
      · simp only [ptoksIs, eraseIs, charsIs, canonFrom, sepO, sepOf, opStart, Bool.and_false, Bool.false_eq_true,
          if_false, List.nil_append, Tk.chars, List.singleton_append]
        rw [canonFrom_append, h1, hs, hl1, h2]
        simp
      · simp only [ptoksIs, lastTk_cons]
        cases is with
        | nil => exact ⟨l1, by simpa [ptoksIs] using hl1, hle1⟩
        | cons i' is' =>
          obtain ⟨l', hl', hle'⟩ := h3 (by simp)
          refine ⟨l', ?_, hle'⟩
          have : lastTk (some Tk.colon) (i.ptoks ++ ptoksIs (i' :: is')) =
              lastTk (lastTk (some Tk.colon) i.ptoks) (ptoksIs (i' :: is')) := by
            simp only [lastTk, List.getLast?_append]
            cases (ptoksIs (i' :: is')).getLast? <;> cases i.ptoks.getLast? <;> rfl
          rw [this, hl1]; exact hl'
theorem LI.canon : ∀ (i : LI) (p : Option Tk), Spells p i.ptoks i.firstTk i.erase.chars
  | .mk gc o os, p => by
      obtain ⟨h1, l, hl, hle⟩ := LO.canon o p
      obtain ⟨h2, l2, hl2, hle2⟩ := canonOs os l hle
      refine ⟨?_, l2, ?_, hle2⟩
      · simp only [LI.ptoks, LI.erase, SI.chars, LI.firstTk]
        rw [canonFrom_append, h1, hl, h2, List.append_assoc]
      · simp only [LI.ptoks]
        have : lastTk p (o.ptoks ++ ptoksOs os) = lastTk (lastTk p o.ptoks) (ptoksOs os) := by
          simp only [lastTk, List.getLast?_append]
          cases (ptoksOs os).getLast? <;> cases o.ptoks.getLast? <;> rfl
        rw [this, hl]; exact hl2
theorem canonOs : ∀ (os : List LO) (l : Tk), opEnd l = true →
    canonFrom (some l) (ptoksOs os) = charsOs (eraseOs os) ∧
    ∃ l', lastTk (some l) (ptoksOs os) = some l' ∧ opEnd l' = true
  | [], l, hl => ⟨rfl, l, rfl, hl⟩
  | o :: os, l, hl => by
      obtain ⟨h1, l1, hl1, hle1⟩ := LO.canon o (some l)
      obtain ⟨h2, l2, hl2, hle2⟩ := canonOs os l1 hle1
      have hs : sepO (some l) o.firstTk = ['*'] := by
        rw [sepO_start _ _ (LO.first_start o)]; simp [hl]
      refine ⟨?_, l2, ?_, hle2⟩
      · simp only [ptoksOs, eraseOs, charsOs]
        rw [canonFrom_append, h1, hs, hl1, h2]
        simp
      · simp only [ptoksOs]
        have : lastTk (some l) (o.ptoks ++ ptoksOs os) = lastTk (lastTk (some l) o.ptoks) (ptoksOs os) := by
          simp only [lastTk, List.getLast?_append]
          cases (ptoksOs os).getLast? <;> cases o.ptoks.getLast? <;> rfl
        rw [this, hl1]; exact hl2
theorem LO.canon : ∀ (o : LO) (p : Option Tk), Spells p o.ptoks o.firstTk o.erase.chars
  | .lit l g, p => ⟨by simp [LO.ptoks, canonFrom, LO.firstTk, LO.erase, SO.chars, Tk.chars],
      .lit l.chars, by simp [LO.ptoks, lastTk], rfl⟩
  | .ccell gh ds g, p => ⟨by simp [LO.ptoks, canonFrom, LO.firstTk, LO.erase, SO.chars, Tk.chars],
      .cc ds, by simp [LO.ptoks, lastTk], rfl⟩
  | .par g1 u g2, p => by
      obtain ⟨h1, l, hl, hle⟩ := LU.canon u (some .op)
      have hs : sepO (some .op) u.firstTk = [] := by rw [sepO_start _ _ (LU.first_start u)]; rfl
      refine ⟨?_, .cl, ?_, rfl⟩
      · simp only [LO.ptoks, LO.firstTk, LO.erase, SO.chars, canonFrom]
        rw [canonFrom_append, h1, hs, hl]
        simp [canonFrom, sepO, sepOf, opStart, Tk.chars]
      · have : (Tk.op :: (u.ptoks ++ [Tk.cl])).getLast? = some Tk.cl := by
          rw [← List.cons_append, List.getLast?_concat]
        simp [LO.ptoks, lastTk, this]
  | .compl gh g1 u g2, p => by
      obtain ⟨h1, l, hl, hle⟩ := LU.canon u (some .uop)
      have hs : sepO (some .uop) u.firstTk = [] := by rw [sepO_start _ _ (LU.first_start u)]; rfl
      refine ⟨?_, .cl, ?_, rfl⟩
      · simp only [LO.ptoks, LO.firstTk, LO.erase, SO.chars, canonFrom]
        rw [canonFrom_append, h1, hs, hl]
        simp [canonFrom, sepO, sepOf, opStart, Tk.chars]
      · have : (Tk.uop :: (u.ptoks ++ [Tk.cl])).getLast? = some Tk.cl := by
          rw [← List.cons_append, List.getLast?_concat]
        simp [LO.ptoks, lastTk, this]
end

/-- **the canonical spelling of the layout's tokens is the canonical spelling of the expression** -/
theorem canon_toks (u : LU) : canonT (postToks (u.toks.map (·.1))) = u.erase.chars := by
  have h1 := LU.post u []
  simp only [List.append_nil, postToks] at h1
  rw [h1, canonT_eq, (LU.canon u none).1]
  rfl
end T4V.NL

namespace T4V.NL
open T4V

/-! ### tokens of a well-formed expression are well-formed -/

theorem lit_tok_ok (l : Lit) (h : l.WF) : (Tk.lit l.chars).OK := by
  obtain ⟨hne, hd, hf⟩ := h
  refine ⟨?_, ?_⟩
  · intro he
    have : l.ds = [] := by
      have h2 : l.chars.length = 0 := by rw [he]; rfl
      simp only [Lit.chars, List.length_append] at h2
      exact List.length_eq_zero_iff.mp (by omega)
    exact hne this
  · intro c hc
    simp only [Lit.chars, List.mem_append] at hc
    rcases hc with (hc | hc) | hc
    · cases hs : l.sign with
      | none => simp [hs] at hc
      | some b => cases b <;> simp [hs] at hc <;> subst hc <;> decide
    · exact digit_litChar c (hd c hc)
    · cases hfc : l.facet with
      | none => simp [hfc] at hc
      | some d =>
        simp only [hfc, List.mem_cons, List.mem_nil_iff, or_false] at hc
        rcases hc with rfl | rfl
        · decide
        · exact digit_litChar _ (hf c hfc)

theorem tchunksOK_append {a b : List TChunk} (ha : TChunksOK a) (hb : TChunksOK b) : TChunksOK (a ++ b) := by
  intro p hp
  rcases List.mem_append.mp hp with h | h
  · exact ha p h
  · exact hb p h

mutual
theorem LU.toks_ok : ∀ (u : LU), u.erase.WF → u.GapsWs → TChunksOK u.toks
  | .mk i is, hw, hg => by
      simp only [LU.erase, SU.WF] at hw
      simp only [LU.GapsWs] at hg
      exact tchunksOK_append (LI.toks_ok i hw.1 hg.1) (toksIs_ok is hw.2 hg.2)
theorem toksIs_ok : ∀ (is : List LI), wfIs (eraseIs is) → gapsWsIs is → TChunksOK (toksIs is)
  | [], _, _ => fun _ h => by cases h
  | i :: is, hw, hg => by
      simp only [eraseIs, wfIs] at hw
      simp only [gapsWsIs] at hg
      intro p hp
      simp only [toksIs, List.mem_cons] at hp
      rcases hp with rfl | hp
      · exact ⟨trivial, hg.1⟩
      · exact tchunksOK_append (LI.toks_ok i hw.1 hg.2.1) (toksIs_ok is hw.2 hg.2.2) p hp
theorem LI.toks_ok : ∀ (i : LI), i.erase.WF → i.GapsWs → TChunksOK i.toks
  | .mk _ o os, hw, hg => by
      simp only [LI.erase, SI.WF] at hw
      simp only [LI.GapsWs] at hg
      exact tchunksOK_append (LO.toks_ok o hw.1 hg.1) (toksOs_ok os hw.2 hg.2)
theorem toksOs_ok : ∀ (os : List LO), wfOs (eraseOs os) → gapsWsOs os → TChunksOK (toksOs os)
  | [], _, _ => fun _ h => by cases h
  | o :: os, hw, hg => by
      simp only [eraseOs, wfOs] at hw
      simp only [gapsWsOs] at hg
      exact tchunksOK_append (LO.toks_ok o hw.1 hg.1) (toksOs_ok os hw.2 hg.2)
theorem LO.toks_ok : ∀ (o : LO), o.erase.WF → o.GapsWs → TChunksOK o.toks
  | .lit l g, hw, hg => by
      intro p hp
      simp only [LO.toks, List.mem_singleton] at hp
      subst hp
      exact ⟨lit_tok_ok l hw, hg⟩
  | .par g1 u g2, hw, hg => by
      simp only [LO.erase, SO.WF] at hw
      simp only [LO.GapsWs] at hg
      intro p hp
      simp only [LO.toks, List.mem_cons, List.mem_append, List.mem_nil_iff, or_false] at hp
      rcases hp with rfl | hp | rfl
      · exact ⟨trivial, hg.1⟩
      · exact LU.toks_ok u hw hg.2.1 p hp
      · exact ⟨trivial, hg.2.2⟩
  | .compl gh g1 u g2, hw, hg => by
      simp only [LO.erase, SO.WF] at hw
      simp only [LO.GapsWs] at hg
      intro p hp
      simp only [LO.toks, List.mem_cons, List.mem_append, List.mem_nil_iff, or_false] at hp
      rcases hp with rfl | rfl | hp | rfl
      · exact ⟨trivial, hg.1⟩
      · exact ⟨trivial, hg.2.1⟩
      · exact LU.toks_ok u hw hg.2.2.1 p hp
      · exact ⟨trivial, hg.2.2.2⟩
  | .ccell gh ds g, hw, hg => by
      simp only [LO.erase, SO.WF] at hw
      simp only [LO.GapsWs] at hg
      intro p hp
      simp only [LO.toks, List.mem_cons, List.mem_nil_iff, or_false] at hp
      rcases hp with rfl | rfl
      · exact ⟨trivial, hg.1⟩
      · exact ⟨⟨hw.1, fun c hc => digit_litChar c (hw.2 c hc)⟩, hg.2⟩
end

/-- the text of a layout: leading blanks, then every token followed by its blanks -/
def LU.text (g0 : List Char) (u : LU) : List Char := render g0 (toChunks u.toks)

/-- **`normalize` maps every legal layout of an expression to its canonical spelling.**  `u` is the expression with
a (possibly empty) run of blanks — any of the six ASCII blanks — after every token and in front; legality
(`LegalFrom`): two surface literals, or a cell number `#n` and a literal, that follow each other are separated by at
least one blank. -/
theorem normalize_layout (u : LU) (g0 : List Char) (hw : u.erase.WF) (hg : u.GapsWs) (h0 : AllWs g0)
    (hl : LegalFrom none g0 u.toks) : normalize (u.text g0) = u.erase.chars := by
  unfold LU.text
  rw [normalize_tokens u.toks g0 (LU.toks_ok u hw hg) h0 hl, canon_toks]
end T4V.NL
