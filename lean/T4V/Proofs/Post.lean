import T4V.Model.Post
import T4V.Proofs.Den
/-!
# Proofs about the post-processing: de-duplication is sound, `remove_empty_volumes` leaves no
volume with one surface on both sides
-/
namespace T4V

structure DedupInv (proc : List (Nat × String)) (acc : List (String × Nat) × List Nat × List (Nat × Nat)) : Prop where
  seen : ∀ k b, (k, b) ∈ acc.1 → (b, k) ∈ proc ∧ b ∈ acc.2.1
  ren : ∀ a b, (a, b) ∈ acc.2.2 → ∃ k, (a, k) ∈ proc ∧ (b, k) ∈ proc ∧ b ∈ acc.2.1

theorem dedupStep_inv (proc : List (Nat × String)) (acc) (p : Nat × String) (h : DedupInv proc acc) :
    DedupInv (proc ++ [p]) (dedupStep acc p) := by
  obtain ⟨hs, hr⟩ := h
  unfold dedupStep
  cases hf : acc.1.find? (·.1 == p.2) with
  | some q =>
    obtain ⟨k', b'⟩ := q
    have hm := List.mem_of_find?_eq_some hf
    have hkey : k' = p.2 := by simpa using List.find?_some hf
    subst hkey
    refine ⟨fun k b hkb => ⟨List.mem_append_left _ (hs k b hkb).1, (hs k b hkb).2⟩, ?_⟩
    intro a b hab
    simp only [List.mem_append, List.mem_singleton, Prod.mk.injEq] at hab
    rcases hab with hab | ⟨rfl, rfl⟩
    · obtain ⟨k, h1, h2, h3⟩ := hr a b hab
      exact ⟨k, List.mem_append_left _ h1, List.mem_append_left _ h2, h3⟩
    · exact ⟨p.2, by simp, List.mem_append_left _ (hs _ _ hm).1, (hs _ _ hm).2⟩
  | none =>
    refine ⟨?_, ?_⟩
    · intro k b hkb
      simp only [List.mem_append, List.mem_singleton, Prod.mk.injEq] at hkb
      rcases hkb with hkb | ⟨rfl, rfl⟩
      · exact ⟨List.mem_append_left _ (hs k b hkb).1, List.mem_append_left _ (hs k b hkb).2⟩
      · exact ⟨by simp, by simp⟩
    · intro a b hab
      simp only [List.mem_append, List.mem_singleton, Prod.mk.injEq] at hab
      rcases hab with hab | ⟨rfl, rfl⟩
      · obtain ⟨k, h1, h2, h3⟩ := hr a b hab
        exact ⟨k, List.mem_append_left _ h1, List.mem_append_left _ h2, List.mem_append_left _ h3⟩
      · exact ⟨p.2, by simp, by simp, by simp⟩

theorem dedupFold_inv : ∀ (l proc : List (Nat × String)) (acc), DedupInv proc acc →
    DedupInv (proc ++ l) (l.foldl dedupStep acc)
  | [], proc, acc, h => by simpa using h
  | p :: l, proc, acc, h => by
      have := dedupFold_inv l (proc ++ [p]) (dedupStep acc p) (dedupStep_inv proc acc p h)
      simpa using this

/-- **De-duplication merges two surface numbers only if they describe the same surface**: whenever
`remove_duplicate_surfaces` renumbers `a` to `b`, both carry the same definition, and `b` is kept. -/
theorem removeDuplicates_sound (surfs : List (Nat × String)) (a b : Nat)
    (h : (a, b) ∈ (removeDuplicates surfs).2) :
    ∃ k, (a, k) ∈ surfs ∧ (b, k) ∈ surfs ∧ b ∈ (removeDuplicates surfs).1 := by
  unfold removeDuplicates at h ⊢
  simp only at h ⊢
  have inv := dedupFold_inv (surfs.mergeSort (fun a b => a.1 ≤ b.1)) [] ([], [], [])
    ⟨fun k b h => by simp at h, fun a b h => by simp at h⟩
  simp only [List.nil_append] at inv
  obtain ⟨k, h1, h2, h3⟩ := inv.ren a b h
  exact ⟨k, List.mem_mergeSort.mp h1, List.mem_mergeSort.mp h2, h3⟩

/-! ## remove_empty_volumes -/

end T4V

namespace T4V

/-! ## `remove_empty_volumes` leaves no volume with one surface on both sides -/

def NoEmpty (vs : List (Nat × Vol)) : Prop := ∀ p ∈ vs, p.2.empty = false

/-- the per-key step of a round -/
def roundStep (u : Nat × Nat) (acc : List (Nat × Vol) × List Nat) (k : Nat) : List (Nat × Vol) × List Nat :=
  match dictGet? acc.1 k with
  | none => acc
  | some v =>
    match v.ops with
    | some (.union, _) =>
        (acc.1.map fun p => if p.1 == k then (k, { v with pluses := [u.1], minuses := [u.2] }) else p, acc.2)
    | _ => (acc.1.filter (·.1 != k), acc.2 ++ [k])

theorem removeEmptyRound_eq (u : Nat × Nat) (vols : List (Nat × Vol)) (q : List Nat) :
    removeEmptyRound u vols q = q.foldl (roundStep u) (vols, []) := by
  unfold removeEmptyRound
  congr 1

theorem neutral_not_empty (u : Nat × Nat) (hu : u.1 ≠ u.2) (v : Vol) :
    ({ v with pluses := [u.1], minuses := [u.2] } : Vol).empty = false := by
  simp [Vol.empty, hu]

/-- after a step for key `k`, no empty volume has key `k`, and no new empty volume appears -/
theorem roundStep_spec (u : Nat × Nat) (hu : u.1 ≠ u.2) (acc : List (Nat × Vol) × List Nat) (k : Nat) :
    (∀ p ∈ (roundStep u acc k).1, p.2.empty = true → p ∈ acc.1 ∧ p.1 ≠ k) := by
  intro p hp he
  unfold roundStep at hp
  cases hg : dictGet? acc.1 k with
  | none =>
    simp only [hg] at hp
    refine ⟨hp, ?_⟩
    intro hk
    have : ¬ hasKey acc.1 k := dictGet?_none_iff'.mp hg
    exact this ⟨p, hp, hk⟩
  | some v =>
    simp only [hg] at hp
    cases ho : v.ops with
    | none =>
      simp only [ho, List.mem_filter, bne_iff_ne, ne_eq] at hp
      exact ⟨hp.1, hp.2⟩
    | some x =>
      obtain ⟨op, ids⟩ := x
      cases op with
      | inter =>
        simp only [ho, List.mem_filter, bne_iff_ne, ne_eq] at hp
        exact ⟨hp.1, hp.2⟩
      | union =>
        simp only [ho, List.mem_map] at hp
        obtain ⟨q, hq, rfl⟩ := hp
        by_cases hk : q.1 = k
        · have : (q.1 == k) = true := by simpa using hk
          simp only [this, if_true] at he
          have hne : ([u.1].any fun s => [u.2].contains s) = false := by simp [hu]
          simp only [Vol.empty] at he
          rw [hne] at he
          exact absurd he (by simp)
        · have : (q.1 == k) = false := by simpa using hk
          simp only [this, Bool.false_eq_true, if_false] at he ⊢
          exact ⟨hq, hk⟩
where
  dictGet?_none_iff' {β} {d : List (Nat × β)} {k : Nat} : dictGet? d k = none ↔ ¬ hasKey d k := by
    constructor
    · intro h hk
      obtain ⟨p, hp, hk'⟩ := hk
      unfold dictGet? at h
      have : d.find? (·.1 == k) = none := by
        cases hf : d.find? (·.1 == k) with
        | none => rfl
        | some q => simp [hf] at h
      rw [List.find?_eq_none] at this
      exact this p hp (by simp [hk'])
    · intro h
      cases hg : dictGet? d k with
      | none => rfl
      | some v => exact absurd (dictGet?_some_hasKey hg) h

/-- a whole round: every empty volume left was empty before and its key is not in the queue -/
theorem round_spec (u : Nat × Nat) (hu : u.1 ≠ u.2) : ∀ (q : List Nat) (acc : List (Nat × Vol) × List Nat),
    ∀ p ∈ (q.foldl (roundStep u) acc).1, p.2.empty = true → p ∈ acc.1 ∧ p.1 ∉ q
  | [], acc, p, hp, _ => ⟨hp, by simp⟩
  | k :: q, acc, p, hp, he => by
      simp only [List.foldl_cons] at hp
      obtain ⟨h1, h2⟩ := round_spec u hu q (roundStep u acc k) p hp he
      obtain ⟨h3, h4⟩ := roundStep_spec u hu acc k p h1 he
      exact ⟨h3, by simp [h4, h2]⟩

theorem afterRound_noEmpty (vs : List (Nat × Vol)) (removed : List Nat) (h : NoEmpty vs) :
    NoEmpty (afterRound vs removed).1 := by
  intro p hp
  simp only [afterRound, List.mem_map] at hp
  obtain ⟨q, hq, rfl⟩ := hp
  have := h q hq
  obtain ⟨k, v⟩ := q
  simp only at this ⊢
  cases ho : v.ops with
  | none => simpa [ho] using this
  | some x =>
    obtain ⟨op, ids⟩ := x
    cases op <;> simpa [ho, Vol.empty] using this

theorem round_noEmpty_of_noEmpty (u : Nat × Nat) (hu : u.1 ≠ u.2) (q : List Nat) (vs : List (Nat × Vol))
    (h : NoEmpty vs) : NoEmpty (removeEmptyRound u vs q).1 := by
  intro p hp
  rw [removeEmptyRound_eq] at hp
  cases he : p.2.empty with
  | false => rfl
  | true =>
    have := (round_spec u hu q (vs, []) p hp he).1
    rw [h p this] at he
    exact absurd he (by simp)

theorem loop_noEmpty (u : Nat × Nat) (hu : u.1 ≠ u.2) : ∀ (fuel : Nat) (vs : List (Nat × Vol)) (queue removed : List Nat),
    NoEmpty vs → NoEmpty (removeEmpty.loop u fuel vs queue removed)
  | 0, vs, _, _, h => by simpa [removeEmpty.loop] using h
  | fuel + 1, vs, queue, removed, h => by
      unfold removeEmpty.loop
      by_cases hq : queue.isEmpty = true
      · simpa [hq] using h
      · simp only [hq, Bool.false_eq_true, if_false]
        exact loop_noEmpty u hu fuel _ _ _ (afterRound_noEmpty _ _ (round_noEmpty_of_noEmpty u hu queue vs h))

/-- **After `remove_empty_volumes` no volume lists one surface on both sides** (the two auxiliary
union planes have different numbers). -/
theorem removeEmpty_noEmpty (u : Nat × Nat) (hu : u.1 ≠ u.2) (vols : List (Nat × Vol)) :
    NoEmpty (removeEmpty u vols) := by
  unfold removeEmpty
  -- fuel = length + 2 ≥ 1: unfold the first round
  show NoEmpty (removeEmpty.loop u (vols.length + 1 + 1) vols _ [])
  unfold removeEmpty.loop
  by_cases hq : ((vols.filter (·.2.empty)).map (·.1)).isEmpty = true
  · simp only [hq, if_true]
    intro p hp
    cases he : p.2.empty with
    | false => rfl
    | true =>
      have : p.1 ∈ (vols.filter (·.2.empty)).map (·.1) := by
        rw [List.mem_map]; exact ⟨p, by simp [hp, he], rfl⟩
      have hnil : (vols.filter (·.2.empty)).map (·.1) = [] := by simpa using hq
      rw [hnil] at this
      exact absurd this (by simp)
  · simp only [hq, Bool.false_eq_true, if_false]
    apply loop_noEmpty u hu
    apply afterRound_noEmpty
    intro p hp
    rw [removeEmptyRound_eq] at hp
    cases he : p.2.empty with
    | false => rfl
    | true =>
      obtain ⟨h1, h2⟩ := round_spec u hu _ (vols, []) p hp he
      exfalso
      apply h2
      rw [List.mem_map]
      exact ⟨p, by simp [h1, he], rfl⟩

theorem removeUnused_sub (vols : List (Nat × Vol)) : ∀ p ∈ removeUnused vols, p ∈ vols := by
  intro p hp
  simp only [removeUnused, List.mem_filter] at hp
  exact hp.1

end T4V

namespace T4V

/-! ## Renumbering surfaces keeps every denotation when merged surfaces have equal senses -/

theorem mem_insertSorted (a b : Nat) : ∀ l : List Nat, b ∈ insertSorted a l ↔ b = a ∨ b ∈ l
  | [] => by simp [insertSorted]
  | c :: r => by
      unfold insertSorted
      by_cases h1 : a < c
      · simp [h1]
      · by_cases h2 : (a == c) = true
        · have : a = c := by simpa using h2
          subst this
          simp [h1]
        · have ih := mem_insertSorted a b r
          simp only [h1, if_false, h2, Bool.false_eq_true, List.mem_cons, ih]
          constructor
          · rintro (h | h | h)
            · exact Or.inr (Or.inl h)
            · exact Or.inl h
            · exact Or.inr (Or.inr h)
          · rintro (h | h | h)
            · exact Or.inr (Or.inl h)
            · exact Or.inl h
            · exact Or.inr (Or.inr h)

theorem mem_toSet (b : Nat) (l : List Nat) : b ∈ toSet l ↔ b ∈ l := by
  unfold toSet
  have key : ∀ (l acc : List Nat), b ∈ l.foldl (fun acc a => insertSorted a acc) acc ↔ b ∈ acc ∨ b ∈ l := by
    intro l
    induction l with
    | nil => intro acc; simp
    | cons x xs ih =>
      intro acc
      simp only [List.foldl_cons, ih, mem_insertSorted, List.mem_cons]
      constructor
      · rintro ((h | h) | h)
        · exact Or.inr (Or.inl h)
        · exact Or.inl h
        · exact Or.inr (Or.inr h)
      · rintro (h | h | h)
        · exact Or.inl (Or.inr h)
        · exact Or.inl (Or.inl h)
        · exact Or.inr h
  simpa using key l []

theorem all_toSet_map (p : Nat → Bool) (f : Nat → Nat) (l : List Nat) :
    (toSet (l.map f)).all p = l.all (fun s => p (f s)) := by
  rw [Bool.eq_iff_iff]
  simp only [List.all_eq_true, mem_toSet, List.mem_map]
  constructor
  · intro h s hs; exact h (f s) ⟨s, hs, rfl⟩
  · rintro h _ ⟨s, hs, rfl⟩; exact h s hs

/-- the EQUA part of a renumbered volume, under a sense assignment that gives merged surfaces the
same sense -/
theorem equa_renumber (σ : TSense) (ren : List (Nat × Nat)) (hσ : ∀ s, σ (renumOf ren s) = σ s) (v : Vol) :
    equa σ (renumVol ren v) = equa σ v := by
  unfold equa renumVol
  simp only [all_toSet_map, hσ]

theorem dictGet?_map {β γ} (f : β → γ) : ∀ (d : List (Nat × β)) (k : Nat),
    dictGet? (d.map fun p => (p.1, f p.2)) k = (dictGet? d k).map f
  | [], k => by simp [dictGet?]
  | (a, b) :: r, k => by
      have ih := dictGet?_map f r k
      unfold dictGet? at ih ⊢
      by_cases h : (a == k) = true
      · simp [List.find?, h]
      · have h' : (a == k) = false := by simpa using h
        simp only [List.map_cons, List.find?, h']
        exact ih

/-- **Renumbering after de-duplication keeps the denotation of every volume.** -/
theorem den_renumber (σ : TSense) (ren : List (Nat × Nat)) (hσ : ∀ s, σ (renumOf ren s) = σ s)
    (vols : List (Nat × Vol)) : ∀ f k, den (renumberVols ren vols) σ f k = den vols σ f k := by
  intro f
  induction f with
  | zero => intro k; simp [den]
  | succ f ih =>
    intro k
    have hget : dictGet? (renumberVols ren vols) k = (dictGet? vols k).map (renumVol ren) := by
      unfold renumberVols
      exact dictGet?_map (renumVol ren) vols k
    unfold den
    rw [hget]
    cases hg : dictGet? vols k with
    | none => simp
    | some v =>
      have he : equa σ (renumVol ren v) = equa σ v := by
        unfold equa renumVol; simp only [all_toSet_map, hσ]
      have hops : (renumVol ren v).ops = v.ops := rfl
      simp only [Option.map_some, hops, he]
      cases ho : v.ops with
      | none => rfl
      | some x =>
        obtain ⟨op, ids⟩ := x
        simp only
        have : ids.mapM (den (renumberVols ren vols) σ f) = ids.mapM (den vols σ f) := by
          congr 1
          funext a
          exact ih a
        rw [this]

end T4V
