import T4V.Text.CellCard
/-!
# `cellcard.split` on a card written as name, material, [density], geometry, options (lemmas for property C14)
-/
namespace T4V.CC

theorem cws_le (c : Char) (h : cws c = true) : c.toNat ≤ 32 := by
  simp only [cws, Bool.or_eq_true, beq_iff_eq] at h
  rcases h with ((((h | h) | h) | h) | h) | h <;> subst h <;> decide

theorem digit_ge (c : Char) (h : isDigit c = true) : 48 ≤ c.toNat := by
  simp only [isDigit, Bool.and_eq_true, decide_eq_true_eq] at h
  exact h.1

theorem digit_not_ws (c : Char) (h : isDigit c = true) : cws c = false := by
  cases hc : cws c with
  | false => rfl
  | true => have := cws_le c hc; have := digit_ge c h; omega

theorem space_ws : cws ' ' = true := by decide
theorem space_not_digit : isDigit ' ' = false := by decide

theorem takeWhile_all_append {p : Char → Bool} (a : List Char) (c : Char) (r : List Char) (ha : ∀ x ∈ a, p x = true)
    (hc : p c = false) : (a ++ c :: r).takeWhile p = a ∧ (a ++ c :: r).dropWhile p = c :: r := by
  induction a with
  | nil => simp [List.takeWhile, List.dropWhile, hc]
  | cons x xs ih =>
    have hx := ha x List.mem_cons_self
    have := ih (fun y hy => ha y (List.mem_cons_of_mem _ hy))
    simp [List.takeWhile, List.dropWhile, hx, this.1, this.2]

theorem takeWhile_all_nil {p : Char → Bool} (a : List Char) (ha : ∀ x ∈ a, p x = true) :
    a.takeWhile p = a ∧ a.dropWhile p = [] := by
  induction a with
  | nil => simp
  | cons x xs ih =>
    have hx := ha x List.mem_cons_self
    have := ih (fun y hy => ha y (List.mem_cons_of_mem _ hy))
    simp [List.takeWhile, List.dropWhile, hx, this.1, this.2]

/-- a word followed by a blank: `word` returns it and what follows -/
theorem word_of (w : List Char) (r : List Char) (hw : ∀ c ∈ w, cws c = false) (hne : w ≠ []) :
    word (w ++ ' ' :: r) = (w, ' ' :: r) := by
  obtain ⟨x, xs, rfl⟩ := List.exists_cons_of_ne_nil hne
  have hx := hw x List.mem_cons_self
  have h1 : ((x :: xs) ++ ' ' :: r).dropWhile cws = (x :: xs) ++ ' ' :: r := by
    simp [List.dropWhile, hx]
  have h2 := takeWhile_all_append (p := fun c => !cws c) (x :: xs) ' ' r (fun c hc => by simp [hw c hc]) (by decide)
  simp only [word, h1, h2.1, h2.2]

theorem word_of_blank (w : List Char) (r : List Char) (hw : ∀ c ∈ w, cws c = false) (hne : w ≠ []) :
    word (' ' :: w ++ ' ' :: r) = (w, ' ' :: r) := by
  have : (' ' :: w ++ ' ' :: r).dropWhile cws = (w ++ ' ' :: r).dropWhile cws := by
    simp [List.dropWhile, space_ws]
  have h := word_of w r hw hne
  simp only [word] at h ⊢
  rw [this]
  exact h

end T4V.CC

namespace T4V.CC
set_option linter.unusedSimpArgs false

theorem findOptions_step (a b : Char) (r : List Char) :
    findOptions (a :: b :: r) =
      if ((a == ')' || cws a) && (b == '*' || isLetter b)) = true then some ([], a, b :: r)
      else (findOptions (b :: r)).map fun (p1, p2, o) => (a :: p1, p2, o) := by
  rw [findOptions]

/-- the options start at the first letter or `*` that follows a blank or `)`: if the text in front has no such
place, the split is exactly there -/
theorem findOptions_at (p1 : List Char) (p2 : Char) (o : Char) (rest : List Char)
    (hnone : findOptions (p1 ++ [p2]) = none) (hp2 : (p2 == ')' || cws p2) = true)
    (ho : (o == '*' || isLetter o) = true) :
    findOptions (p1 ++ p2 :: o :: rest) = some (p1, p2, o :: rest) := by
  induction p1 with
  | nil => rw [List.nil_append, findOptions_step]; simp [hp2, ho]
  | cons a as ih =>
    -- as ++ [p2] = b :: r0, hence as ++ p2 :: o :: rest = b :: (r0 ++ o :: rest)
    obtain ⟨b, r0, hb⟩ : ∃ b r0, as ++ [p2] = b :: r0 := by
      cases as with
      | nil => exact ⟨p2, [], rfl⟩
      | cons x xs => exact ⟨x, xs ++ [p2], rfl⟩
    have hb' : as ++ p2 :: o :: rest = b :: (r0 ++ o :: rest) := by
      have : as ++ p2 :: o :: rest = (as ++ [p2]) ++ o :: rest := by simp
      rw [this, hb]; rfl
    have hn1 : findOptions (a :: b :: r0) = none := by rw [← hb]; exact hnone
    rw [findOptions_step] at hn1
    have hcond : ((a == ')' || cws a) && (b == '*' || isLetter b)) = false := by
      cases hc : ((a == ')' || cws a) && (b == '*' || isLetter b)) with
      | false => rfl
      | true => simp [hc] at hn1
    simp only [hcond, Bool.false_eq_true, if_false, Option.map_eq_none_iff] at hn1
    have := ih (by rw [hb]; exact hn1)
    rw [List.cons_append, hb', findOptions_step]
    rw [hb'] at this
    simp [hcond, this]

/-- no letter and no `*` at all: no options -/
theorem findOptions_none_of_plain (cs : List Char) (h : ∀ c ∈ cs, (c == '*' || isLetter c) = false) :
    findOptions cs = none := by
  induction cs with
  | nil => rfl
  | cons a as ih =>
    cases as with
    | nil => rfl
    | cons b bs =>
      have hb := h b (List.mem_cons_of_mem _ List.mem_cons_self)
      have := ih (fun c hc => h c (List.mem_cons_of_mem _ hc))
      simp [findOptions, hb, this]

end T4V.CC
