import T4V.Text.CellCard
/-!
# `cellcard.split` on a card written as name, material, [density], geometry, options (lemmas for property C14)
-/
namespace T4V.CC

theorem cws_le (c : Char) (h : cws c = true) : c.toNat ≤ 32 := by
  simp only [cws, Bool.or_eq_true, beq_iff_eq] at h
  rcases h with ((((h | h) | h) | h) | h) | h <;> subst h <;> decide

theorem digit_ge (c : Char) (h : isDigit c = true) : 48 ≤ c.toNat := by
  simp only [isDigit, Bool.and_eq_true, decide_eq_true_eq] at h
  exact h.1

theorem digit_not_ws (c : Char) (h : isDigit c = true) : cws c = false := by
  cases hc : cws c with
  | false => rfl
  | true => have := cws_le c hc; have := digit_ge c h; omega

theorem space_ws : cws ' ' = true := by decide
theorem space_not_digit : isDigit ' ' = false := by decide

theorem takeWhile_all_append {p : Char → Bool} (a : List Char) (c : Char) (r : List Char) (ha : ∀ x ∈ a, p x = true)
    (hc : p c = false) : (a ++ c :: r).takeWhile p = a ∧ (a ++ c :: r).dropWhile p = c :: r := by
  induction a with
  | nil => simp [List.takeWhile, List.dropWhile, hc]
  | cons x xs ih =>
    have hx := ha x List.mem_cons_self
    have := ih (fun y hy => ha y (List.mem_cons_of_mem _ hy))
    simp [List.takeWhile, List.dropWhile, hx, this.1, this.2]

theorem takeWhile_all_nil {p : Char → Bool} (a : List Char) (ha : ∀ x ∈ a, p x = true) :
    a.takeWhile p = a ∧ a.dropWhile p = [] := by
  induction a with
  | nil => simp
  | cons x xs ih =>
    have hx := ha x List.mem_cons_self
    have := ih (fun y hy => ha y (List.mem_cons_of_mem _ hy))
    simp [List.takeWhile, List.dropWhile, hx, this.1, this.2]

/-- a word followed by a blank: `word` returns it and what follows -/
theorem word_of (w : List Char) (r : List Char) (hw : ∀ c ∈ w, cws c = false) (hne : w ≠ []) :
    word (w ++ ' ' :: r) = (w, ' ' :: r) := by
  obtain ⟨x, xs, rfl⟩ := List.exists_cons_of_ne_nil hne
  have hx := hw x List.mem_cons_self
  have h1 : ((x :: xs) ++ ' ' :: r).dropWhile cws = (x :: xs) ++ ' ' :: r := by
    simp [List.dropWhile, hx]
  have h2 := takeWhile_all_append (p := fun c => !cws c) (x :: xs) ' ' r (fun c hc => by simp [hw c hc]) (by decide)
  simp only [word, h1, h2.1, h2.2]

theorem word_of_blank (w : List Char) (r : List Char) (hw : ∀ c ∈ w, cws c = false) (hne : w ≠ []) :
    word (' ' :: w ++ ' ' :: r) = (w, ' ' :: r) := by
  have : (' ' :: w ++ ' ' :: r).dropWhile cws = (w ++ ' ' :: r).dropWhile cws := by
    simp [List.dropWhile, space_ws]
  have h := word_of w r hw hne
  simp only [word] at h ⊢
  rw [this]
  exact h

end T4V.CC

namespace T4V.CC
set_option linter.unusedSimpArgs false

theorem findOptions_step (a b : Char) (r : List Char) :
    findOptions (a :: b :: r) =
      if ((a == ')' || cws a) && (b == '*' || isLetter b)) = true then some ([], a, b :: r)
      else (findOptions (b :: r)).map fun (p1, p2, o) => (a :: p1, p2, o) := by
  rw [findOptions]

/-- the options start at the first letter or `*` that follows a blank or `)`: if the text in front has no such
place, the split is exactly there -/
theorem findOptions_at (p1 : List Char) (p2 : Char) (o : Char) (rest : List Char)
    (hnone : findOptions (p1 ++ [p2]) = none) (hp2 : (p2 == ')' || cws p2) = true)
    (ho : (o == '*' || isLetter o) = true) :
    findOptions (p1 ++ p2 :: o :: rest) = some (p1, p2, o :: rest) := by
  induction p1 with
  | nil => rw [List.nil_append, findOptions_step]; simp [hp2, ho]
  | cons a as ih =>
    -- as ++ [p2] = b :: r0, hence as ++ p2 :: o :: rest = b :: (r0 ++ o :: rest)
    obtain ⟨b, r0, hb⟩ : ∃ b r0, as ++ [p2] = b :: r0 := by
      cases as with
      | nil => exact ⟨p2, [], rfl⟩
      | cons x xs => exact ⟨x, xs ++ [p2], rfl⟩
    have hb' : as ++ p2 :: o :: rest = b :: (r0 ++ o :: rest) := by
      have : as ++ p2 :: o :: rest = (as ++ [p2]) ++ o :: rest := by simp
      rw [this, hb]; rfl
    have hn1 : findOptions (a :: b :: r0) = none := by rw [← hb]; exact hnone
    rw [findOptions_step] at hn1
    have hcond : ((a == ')' || cws a) && (b == '*' || isLetter b)) = false := by
      cases hc : ((a == ')' || cws a) && (b == '*' || isLetter b)) with
      | false => rfl
      | true => simp [hc] at hn1
    simp only [hcond, Bool.false_eq_true, if_false, Option.map_eq_none_iff] at hn1
    have := ih (by rw [hb]; exact hn1)
    rw [List.cons_append, hb', findOptions_step]
    rw [hb'] at this
    simp [hcond, this]

/-- no letter and no `*` at all: no options -/
theorem findOptions_none_of_plain (cs : List Char) (h : ∀ c ∈ cs, (c == '*' || isLetter c) = false) :
    findOptions cs = none := by
  induction cs with
  | nil => rfl
  | cons a as ih =>
    cases as with
    | nil => rfl
    | cons b bs =>
      have hb := h b (List.mem_cons_of_mem _ List.mem_cons_self)
      have := ih (fun c hc => h c (List.mem_cons_of_mem _ hc))
      simp [findOptions, hb, this]

end T4V.CC

namespace T4V.CC
set_option linter.unusedSimpArgs false

theorem takeWhile_stop {p : Char → Bool} (a g : List Char) (ha : ∀ x ∈ a, p x = true)
    (hg : ∀ c rest, g = c :: rest → p c = false) : (a ++ g).takeWhile p = a ∧ (a ++ g).dropWhile p = g := by
  cases g with
  | nil => simpa using takeWhile_all_nil a ha
  | cons c rest => exact takeWhile_all_append a c rest ha (hg c rest rfl)

/-- `(\s*[0-9]+)` on a card that starts with its number followed by a blank -/
theorem nameGroup_of (ds rest : List Char) (hne : ds ≠ []) (hd : ∀ c ∈ ds, isDigit c = true) :
    nameGroup (ds ++ ' ' :: rest) = some (ds, ' ' :: rest) := by
  obtain ⟨x, xs, rfl⟩ := List.exists_cons_of_ne_nil hne
  have hx : cws x = false := digit_not_ws x (hd x List.mem_cons_self)
  have h1 : ((x :: xs) ++ ' ' :: rest).takeWhile cws = [] := by simp [List.takeWhile, hx]
  have h2 : ((x :: xs) ++ ' ' :: rest).dropWhile cws = (x :: xs) ++ ' ' :: rest := by simp [List.dropWhile, hx]
  have h3 := takeWhile_all_append (p := isDigit) (x :: xs) ' ' rest hd space_not_digit
  simp only [nameGroup, h1, h2, h3.1, h3.2, List.nil_append]
  simp

/-- `(\s+\S+)` on a blank followed by a word followed by a blank or the end -/
theorem wsWord_of (w rest : List Char) (hne : w ≠ []) (hw : ∀ c ∈ w, cws c = false)
    (hrest : ∀ c r, rest = c :: r → cws c = true) :
    wsWord (' ' :: w ++ rest) = some (' ' :: w, rest) := by
  obtain ⟨x, xs, rfl⟩ := List.exists_cons_of_ne_nil hne
  have hx := hw x List.mem_cons_self
  have h1 : (' ' :: (x :: xs) ++ rest).takeWhile cws = [' '] := by simp [List.takeWhile, space_ws, hx]
  have h2 : (' ' :: (x :: xs) ++ rest).dropWhile cws = (x :: xs) ++ rest := by simp [List.dropWhile, space_ws, hx]
  have h3 := takeWhile_stop (p := fun c => !cws c) (x :: xs) rest (fun c hc => by simp [hw c hc])
    (fun c r hr => by simp [hrest c r hr])
  simp only [wsWord, h1, h2, h3.1, h3.2]
  simp

/-- `(\s+[^\s(]+)` on a blank followed by the density, which ends at a blank, a `(` or the end -/
theorem wsDensity_of (w rest : List Char) (hne : w ≠ []) (hw : ∀ c ∈ w, cws c = false ∧ c ≠ '(')
    (hrest : ∀ c r, rest = c :: r → cws c = true ∨ c = '(') :
    wsDensity (' ' :: w ++ rest) = some (' ' :: w, rest) := by
  obtain ⟨x, xs, rfl⟩ := List.exists_cons_of_ne_nil hne
  have hx := (hw x List.mem_cons_self).1
  have h1 : (' ' :: (x :: xs) ++ rest).takeWhile cws = [' '] := by simp [List.takeWhile, space_ws, hx]
  have h2 : (' ' :: (x :: xs) ++ rest).dropWhile cws = (x :: xs) ++ rest := by simp [List.dropWhile, space_ws, hx]
  have h3 := takeWhile_stop (p := fun c => !cws c && c != '(') (x :: xs) rest
    (fun c hc => by simp [(hw c hc).1, (hw c hc).2])
    (fun c r hr => by rcases hrest c r hr with h | h <;> simp [h])
  simp only [wsDensity, h1, h2, h3.1, h3.2]
  simp

theorem lower_digit (a : Char) (h : isDigit a = true) : lower a = a := by
  simp only [isDigit, Bool.and_eq_true, decide_eq_true_eq] at h
  unfold lower
  have h2 : a.toNat ≤ 57 := h.2
  have : ¬ ('A' ≤ a) := by
    intro hA
    have : 65 ≤ a.toNat := hA
    omega
  simp [this]

/-- what `float` accepts starts with a digit, a sign or a point -/
theorem floatZero_first (m : List Char) (z : Bool) (h : floatZero? m = some z) :
    ∃ a rest, m = a :: rest ∧ (isDigit a = true ∨ a = '+' ∨ a = '-' ∨ a = '.') := by
  cases m with
  | nil => simp [floatZero?, stripSign, fracPart] at h
  | cons a rest =>
    refine ⟨a, rest, rfl, ?_⟩
    by_cases hd : isDigit a = true
    · exact Or.inl hd
    by_cases hp : a = '+'
    · exact Or.inr (Or.inl hp)
    by_cases hmn : a = '-'
    · exact Or.inr (Or.inr (Or.inl hmn))
    by_cases hdot : a = '.'
    · exact Or.inr (Or.inr (Or.inr hdot))
    exfalso
    have hd' : isDigit a = false := by simpa using hd
    have ht : stripSign (a :: rest) = a :: rest := by
      unfold stripSign
      split
      · rename_i heq; cases heq; exact absurd rfl hp
      · rename_i heq; cases heq; exact absurd rfl hmn
      · rfl
    have hf : fracPart (a :: rest) = ([], a :: rest) := by
      unfold fracPart
      split
      · rename_i heq; cases heq; exact absurd rfl hdot
      · rfl
    simp [floatZero?, ht, List.takeWhile, hd', List.dropWhile, hf] at h

/-- a number is not the word `like` -/
theorem floatZero_not_like (m : List Char) (z : Bool) (h : floatZero? m = some z) : m.map lower ≠ "like".toList := by
  obtain ⟨a, rest, rfl, ha⟩ := floatZero_first m z h
  intro hl
  have h1 : lower a = 'l' := by
    have := congrArg List.head? hl
    simpa using this
  rcases ha with hd | rfl | rfl | rfl
  · rw [lower_digit a hd] at h1
    subst h1
    revert hd; decide
  · revert h1; decide
  · revert h1; decide
  · revert h1; decide

end T4V.CC

namespace T4V.CC
set_option linter.unusedSimpArgs false

/-- the card in front of its options: number, material, density, and the rest (geometry) -/
def bodyNonvoid (ds m r g : List Char) : List Char := ds ++ ' ' :: (m ++ ' ' :: (r ++ g))
/-- the same for a void cell (no density) -/
def bodyVoid (ds m g : List Char) : List Char := ds ++ ' ' :: (m ++ g)

/-- how the options are attached to the text in front: there are none and the text has no place where options could
start, or they begin with a letter or `*` right after the final `)` or blank of the text, which has no earlier such
place -/
def OptsAt (body o : List Char) : Prop :=
  (o = [] ∧ findOptions body = none) ∨
  (∃ p1 p2 c rest, body = p1 ++ [p2] ∧ o = c :: rest ∧ findOptions (p1 ++ [p2]) = none ∧
    (p2 == ')' || cws p2) = true ∧ (c == '*' || isLetter c) = true)

theorem cutOptions_optsAt (body o : List Char) (h : OptsAt body o) : cutOptions (body ++ o) = (body, o) := by
  unfold cutOptions
  rcases h with ⟨rfl, hn⟩ | ⟨p1, p2, c, rest, rfl, rfl, hn, hp2, hc⟩
  · simp [hn]
  · have := findOptions_at p1 p2 c rest hn hp2 hc
    have e : p1 ++ [p2] ++ c :: rest = p1 ++ p2 :: c :: rest := by simp
    rw [e, this]

theorem dropWhile_ws_word (w rest : List Char) (hne : w ≠ []) (hw : ∀ c ∈ w, cws c = false) :
    ((' ' :: w ++ rest).dropWhile cws).isEmpty = false := by
  obtain ⟨x, xs, rfl⟩ := List.exists_cons_of_ne_nil hne
  have hx := hw x List.mem_cons_self
  simp [List.dropWhile, space_ws, hx]

/-- **a cell card with a material**: number, material, density, geometry, options are returned as written -/
theorem split_nonvoid (ds m r g o : List Char)
    (hds : ds ≠ [] ∧ ∀ c ∈ ds, isDigit c = true)
    (hm : m ≠ [] ∧ ∀ c ∈ m, cws c = false) (hz : floatZero? m = some false)
    (hr : r ≠ [] ∧ ∀ c ∈ r, cws c = false ∧ c ≠ '(')
    (hg : ∀ c rest, g = c :: rest → cws c = true ∨ c = '(')
    (hopt : OptsAt (bodyNonvoid ds m r g) o) :
    splitCell (bodyNonvoid ds m r g ++ o)
      = .ok { name := ds, mat := ' ' :: m ++ ' ' :: r, geom := g, opts := o } := by
  have hdw : ∀ c ∈ ds, cws c = false := fun c hc => digit_not_ws c (hds.2 c hc)
  have hrw : ∀ c ∈ r, cws c = false := fun c hc => (hr.2 c hc).1
  have e0 : bodyNonvoid ds m r g ++ o = ds ++ ' ' :: (m ++ ' ' :: (r ++ (g ++ o))) := by
    simp [bodyNonvoid]
  have w1 : word (bodyNonvoid ds m r g ++ o) = (ds, ' ' :: (m ++ ' ' :: (r ++ (g ++ o)))) := by
    rw [e0]; exact word_of ds _ hdw hds.1
  have w2 : word (' ' :: (m ++ ' ' :: (r ++ (g ++ o)))) = (m, ' ' :: (r ++ (g ++ o))) := by
    have := word_of_blank m (r ++ (g ++ o)) hm.2 hm.1
    simpa using this
  have w3 : ((' ' :: (r ++ (g ++ o))).dropWhile cws).isEmpty = false := by
    have := dropWhile_ws_word r (g ++ o) hr.1 hrw
    simpa using this
  have hlike := floatZero_not_like m false hz
  have hfo := cutOptions_optsAt _ o hopt
  have hlike' : (m.map lower == "like".toList) = false := by simpa using hlike
  have hng : nameGroup (bodyNonvoid ds m r g) = some (ds, ' ' :: (m ++ ' ' :: (r ++ g))) := by
    unfold bodyNonvoid; exact nameGroup_of ds _ hds.1 hds.2
  have hww : wsWord (' ' :: (m ++ ' ' :: (r ++ g))) = some (' ' :: m, ' ' :: (r ++ g)) := by
    have := wsWord_of m (' ' :: (r ++ g)) hm.1 hm.2 (fun c r' h => by cases h; exact space_ws)
    simpa using this
  have hwd : wsDensity (' ' :: (r ++ g)) = some (' ' :: r, g) := by
    have := wsDensity_of r g hr.1 hr.2 hg
    simpa using this
  have hmne : m.isEmpty = false := by
    cases m with
    | nil => exact absurd rfl hm.1
    | cons _ _ => rfl
  unfold splitCell
  simp only [w1, w2, w3, hmne, Bool.false_or, Bool.false_eq_true, if_false, hlike', hz, hfo, hng, hww, hwd]

end T4V.CC

namespace T4V.CC
set_option linter.unusedSimpArgs false

theorem word_of_blank' (w : List Char) (r : List Char) (hw : ∀ c ∈ w, cws c = false) (hne : w ≠ []) :
    word (' ' :: (w ++ ' ' :: r)) = (w, ' ' :: r) := by
  simpa using word_of_blank w r hw hne

/-- **a void cell card**: number, `0` (any spelling of zero), geometry, options -/
theorem split_void (ds m g o : List Char)
    (hds : ds ≠ [] ∧ ∀ c ∈ ds, isDigit c = true)
    (hm : m ≠ [] ∧ ∀ c ∈ m, cws c = false) (hz : floatZero? m = some true)
    (hthird : ((g ++ o).dropWhile cws).isEmpty = false)
    (hopt : OptsAt (bodyVoid ds m (' ' :: g)) o) :
    splitCell (bodyVoid ds m (' ' :: g) ++ o) = .ok { name := ds, mat := ' ' :: m, geom := ' ' :: g, opts := o } := by
  have hdw : ∀ c ∈ ds, cws c = false := fun c hc => digit_not_ws c (hds.2 c hc)
  have e0 : bodyVoid ds m (' ' :: g) ++ o = ds ++ ' ' :: (m ++ ' ' :: (g ++ o)) := by simp [bodyVoid]
  have w1 : word (bodyVoid ds m (' ' :: g) ++ o) = (ds, ' ' :: (m ++ ' ' :: (g ++ o))) := by
    rw [e0]; exact word_of ds _ hdw hds.1
  have w2 := word_of_blank' m (g ++ o) hm.2 hm.1
  have w3 : ((' ' :: (g ++ o)).dropWhile cws).isEmpty = false := by
    simpa [List.dropWhile, space_ws] using hthird
  have hlike' : (m.map lower == "like".toList) = false := by simpa using floatZero_not_like m true hz
  have hfo := cutOptions_optsAt _ o hopt
  have hng : nameGroup (bodyVoid ds m (' ' :: g)) = some (ds, ' ' :: (m ++ ' ' :: g)) := by
    unfold bodyVoid; exact nameGroup_of ds _ hds.1 hds.2
  have hww : wsWord (' ' :: (m ++ ' ' :: g)) = some (' ' :: m, ' ' :: g) := by
    have := wsWord_of m (' ' :: g) hm.1 hm.2 (fun c r' h => by cases h; exact space_ws)
    simpa using this
  have hmne : m.isEmpty = false := by
    cases m with
    | nil => exact absurd rfl hm.1
    | cons _ _ => rfl
  unfold splitCell
  simp only [w1, w2, w3, hmne, Bool.false_or, Bool.false_eq_true, if_false, hlike', hz, hfo, hng, hww, if_true]

/-! ### `LIKE n BUT` cards -/

/-- `b`, `u`, `t` in any letter case -/
def isBut (x y z : Char) : Bool := lower x == 'b' && lower y == 'u' && lower z == 't'

theorem lastBut_cons_none (c : Char) (r : List Char) (hr : lastBut r = none)
    (hc : ∀ y z rest, r = y :: z :: rest → isBut c y z = false) : lastBut (c :: r) = none := by
  rw [lastBut]
  simp only [hr]
  match r, hc with
  | [], _ => rfl
  | [_], _ => rfl
  | y :: z :: rest, hc =>
    have := hc y z rest rfl
    simp only [isBut] at this
    simp [this]

theorem lastBut_cons_some (c : Char) (r a b : List Char) (hr : lastBut r = some (a, b)) :
    lastBut (c :: r) = some (c :: a, b) := by
  rw [lastBut]; simp [hr]

/-- the last `but` of a text that ends with `but` followed by a text without one -/
theorem lastBut_at (mid : List Char) (x y z : Char) (o : List Char) (hb : isBut x y z = true)
    (ho : lastBut o = none)
    (ho1 : ∀ a b rest, o = a :: b :: rest → isBut z a b = false)
    (ho2 : ∀ a rest, o = a :: rest → isBut y z a = false) :
    lastBut (mid ++ x :: y :: z :: o) = some (mid ++ [x, y, z], o) := by
  induction mid with
  | nil =>
    have hz : lastBut (z :: o) = none := lastBut_cons_none z o ho (fun a b rest h => ho1 a b rest h)
    have hy : lastBut (y :: z :: o) = none := lastBut_cons_none y (z :: o) hz (fun a b rest h => by
      cases h; exact ho2 _ _ rfl)
    rw [List.nil_append, lastBut]
    simp only [hy]
    simp only [isBut] at hb
    simp [hb]
  | cons c cs ih => exact lastBut_cons_some c _ _ _ ih

end T4V.CC

namespace T4V.CC
set_option linter.unusedSimpArgs false

theorem lower_of_ws (c : Char) (h : cws c = true) : lower c = c := by
  have h32 := cws_le c h
  unfold lower
  have : ¬ ('A' ≤ c) := by
    intro hA
    have : 65 ≤ c.toNat := hA
    omega
  simp [this]

/-- a character that lower-cases to a letter of `like` / `but` is not a blank -/
theorem not_ws_of_lower (c t : Char) (h : lower c = t) (ht : cws t = false) : cws c = false := by
  cases hc : cws c with
  | false => rfl
  | true => rw [lower_of_ws c hc] at h; subst h; rw [hc] at ht; exact absurd ht (by simp)

theorem dropWhile_nonempty (l : List Char) (c : Char) (hc : c ∈ l) (hn : cws c = false) :
    (l.dropWhile cws).isEmpty = false := by
  induction l with
  | nil => simp at hc
  | cons a as ih =>
    by_cases ha : cws a = true
    · rcases List.mem_cons.mp hc with rfl | h
      · rw [hn] at ha; exact absurd ha (by simp)
      · simpa [List.dropWhile, ha] using ih h
    · simp [List.dropWhile, ha]

/-- **a `LIKE n BUT` card**: the number, then everything up to and including the last `but` as the "geometry", then
the options; `like` and `but` in any letter case -/
theorem split_like (ds mid o : List Char) (l i k e x y z : Char)
    (hds : ds ≠ [] ∧ ∀ c ∈ ds, isDigit c = true)
    (hlk : [l, i, k, e].map lower = "like".toList) (hb : isBut x y z = true)
    (ho : lastBut o = none)
    (ho1 : ∀ a b rest, o = a :: b :: rest → isBut z a b = false)
    (ho2 : ∀ a rest, o = a :: rest → isBut y z a = false) :
    splitCell (ds ++ ' ' :: l :: i :: k :: e :: ' ' :: (mid ++ x :: y :: z :: o))
      = .ok { name := ds, mat := [], geom := ' ' :: l :: i :: k :: e :: ' ' :: (mid ++ [x, y, z]), opts := o } := by
  have hdw : ∀ c ∈ ds, cws c = false := fun c hc => digit_not_ws c (hds.2 c hc)
  simp only [List.map_cons, List.map_nil] at hlk
  have hl : lower l = 'l' := by have := congrArg (·[0]?) hlk; simpa using this
  have hi : lower i = 'i' := by have := congrArg (·[1]?) hlk; simpa using this
  have hk : lower k = 'k' := by have := congrArg (·[2]?) hlk; simpa using this
  have he : lower e = 'e' := by have := congrArg (·[3]?) hlk; simpa using this
  have nl := not_ws_of_lower l 'l' hl (by decide)
  have ni := not_ws_of_lower i 'i' hi (by decide)
  have nk := not_ws_of_lower k 'k' hk (by decide)
  have ne := not_ws_of_lower e 'e' he (by decide)
  have hxb : lower x = 'b' := by
    simp only [isBut, Bool.and_eq_true, beq_iff_eq] at hb; exact hb.1.1
  have nx := not_ws_of_lower x 'b' hxb (by decide)
  have hw4 : ∀ c ∈ [l, i, k, e], cws c = false := by
    intro c hc
    simp only [List.mem_cons, List.mem_nil_iff, or_false] at hc
    rcases hc with rfl | rfl | rfl | rfl <;> assumption
  have w1 : word (ds ++ ' ' :: l :: i :: k :: e :: ' ' :: (mid ++ x :: y :: z :: o))
      = (ds, ' ' :: l :: i :: k :: e :: ' ' :: (mid ++ x :: y :: z :: o)) := word_of ds _ hdw hds.1
  have w2 : word (' ' :: l :: i :: k :: e :: ' ' :: (mid ++ x :: y :: z :: o))
      = ([l, i, k, e], ' ' :: (mid ++ x :: y :: z :: o)) := by
    have := word_of_blank' [l, i, k, e] (mid ++ x :: y :: z :: o) hw4 (by simp)
    simpa using this
  have w3 : ((' ' :: (mid ++ x :: y :: z :: o)).dropWhile cws).isEmpty = false :=
    dropWhile_nonempty _ x (by simp) nx
  have hlike : ([l, i, k, e].map lower == "like".toList) = true := by
    simp only [List.map_cons, List.map_nil, hl, hi, hk, he]; decide
  have hng : nameGroup (ds ++ ' ' :: l :: i :: k :: e :: ' ' :: (mid ++ x :: y :: z :: o))
      = some (ds, ' ' :: l :: i :: k :: e :: ' ' :: (mid ++ x :: y :: z :: o)) := nameGroup_of ds _ hds.1 hds.2
  have ht : (' ' :: l :: i :: k :: e :: ' ' :: (mid ++ x :: y :: z :: o)).takeWhile cws = [' '] := by
    simp [List.takeWhile, space_ws, nl]
  have hd : (' ' :: l :: i :: k :: e :: ' ' :: (mid ++ x :: y :: z :: o)).dropWhile cws
      = l :: i :: k :: e :: ' ' :: (mid ++ x :: y :: z :: o) := by
    simp [List.dropWhile, space_ws, nl]
  have hlb : lastBut (' ' :: (mid ++ x :: y :: z :: o)) = some (' ' :: (mid ++ [x, y, z]), o) := by
    have := lastBut_at (' ' :: mid) x y z o hb ho ho1 ho2
    simpa using this
  unfold splitCell
  simp only [w1, w2, w3, List.isEmpty_cons, Bool.false_or, Bool.false_eq_true, if_false, hlike, if_true, hng, ht, hd,
    hlb]
  simp

end T4V.CC
