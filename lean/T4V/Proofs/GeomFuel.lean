import T4V.Proofs.GeomParse
/-!
# The fuel `parseGeom` gives the PEG parser is enough (property C11)

`cost` (the fuel the round-trip theorem `parse_render` asks for) is at most three times the length of the
canonical spelling plus two; `parseGeom` runs the parser with exactly that much.
-/
namespace T4V

theorem Lit.chars_pos (l : Lit) (hl : l.WF) : 1 ≤ l.chars.length := by
  have : 1 ≤ l.ds.length := by
    cases h : l.ds with
    | nil => exact absurd h hl.1
    | cons _ _ => simp
  simp only [Lit.chars, List.length_append]
  omega

mutual
theorem SU.cost_le : ∀ (u : SU), u.WF → u.cost ≤ 3 * u.chars.length + 2
  | .mk i is, hw => by
    simp only [SU.WF] at hw
    have h1 := SI.cost_le i hw.1
    have h2 := costIs_le is hw.2
    simp only [SU.cost, SU.chars, List.length_append]
    omega
theorem costIs_le : ∀ (is : List SI), wfIs is → costIs is ≤ 3 * (charsIs is).length + 1
  | [], _ => by simp [costIs, charsIs]
  | i :: is, hw => by
    simp only [wfIs] at hw
    have h1 := SI.cost_le i hw.1
    have h2 := costIs_le is hw.2
    simp only [costIs, charsIs, List.length_cons, List.length_append]
    omega
theorem SI.cost_le : ∀ (i : SI), i.WF → i.cost ≤ 3 * i.chars.length
  | .mk o os, hw => by
    simp only [SI.WF] at hw
    have h1 := SO.cost_le o hw.1
    have h2 := costOs_le os hw.2
    simp only [SI.cost, SI.chars, List.length_append]
    omega
theorem costOs_le : ∀ (os : List SO), wfOs os → costOs os ≤ 3 * (charsOs os).length + 1
  | [], _ => by simp [costOs, charsOs]
  | o :: os, hw => by
    simp only [wfOs] at hw
    have h1 := SO.cost_le o hw.1
    have h2 := costOs_le os hw.2
    simp only [costOs, charsOs, List.length_cons, List.length_append]
    omega
theorem SO.cost_le : ∀ (o : SO), o.WF → o.cost + 2 ≤ 3 * o.chars.length
  | .lit l, hw => by
    have := Lit.chars_pos l hw
    simp only [SO.cost, SO.chars]
    omega
  | .par u, hw => by
    have h := SU.cost_le u hw
    simp only [SO.cost, SO.chars, List.length_cons, List.length_append, List.length_nil]
    omega
  | .compl u, hw => by
    have h := SU.cost_le u hw
    simp only [SO.cost, SO.chars, List.length_cons, List.length_append, List.length_nil]
    omega
  | .ccell ds, _ => by
    simp only [SO.cost, SO.chars, List.length_cons, List.length_append, List.length_nil]
    omega
end

end T4V
