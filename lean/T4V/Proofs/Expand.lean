import T4V.Proofs.Den
import T4V.Proofs.Tree
/-!
# pot_flag, pot_expand_surfs, pot_optimise preserve the Boolean function
-/
namespace T4V

/-- sense of an MCNP surface (a signed collection of TRIPOLI-4 surfaces): positive = on the
positive side of some member; facet `j` = the j-th member -/
def surfValOf (m : Matching) (σ : TSense) : SurfVal := fun n sub =>
  match m.get? n with
  | none => false
  | some ids =>
    match sub with
    | none => ids.any (litT σ)
    | some j => litT σ (if j == 0 then ids.getLast?.getD 0 else ids.getD (j - 1) 0)

mutual
def FTree.eval (m : Matching) (σ : TSense) (cv : Nat → Bool) : FTree → Bool
  | .lit s => litT σ s
  | .msurf n sub => litSurf (surfValOf m σ) n sub
  | .cref c => cv c
  | .node _ .inter args => FTree.evalAll m σ cv args
  | .node _ .union args => FTree.evalAny m σ cv args
def FTree.evalAll (m : Matching) (σ : TSense) (cv : Nat → Bool) : List FTree → Bool
  | [] => true
  | t :: ts => FTree.eval m σ cv t && FTree.evalAll m σ cv ts
def FTree.evalAny (m : Matching) (σ : TSense) (cv : Nat → Bool) : List FTree → Bool
  | [] => false
  | t :: ts => FTree.eval m σ cv t || FTree.evalAny m σ cv ts
end

mutual
/-- node ids, pre-order -/
def FTree.ids : FTree → List Nat
  | .lit _ => []
  | .msurf .. => []
  | .cref _ => []
  | .node id _ args => id :: FTree.idsList args
def FTree.idsList : List FTree → List Nat
  | [] => []
  | t :: ts => t.ids ++ FTree.idsList ts
end

mutual
/-- no unexpanded MCNP surface, no literal 0 -/
def FTree.expanded : FTree → Bool
  | .lit s => s != 0
  | .msurf .. => false
  | .cref _ => true
  | .node _ _ args => FTree.expandedList args
def FTree.expandedList : List FTree → Bool
  | [] => true
  | t :: ts => t.expanded && FTree.expandedList ts
end

mutual
def FTree.nonzero : FTree → Bool
  | .lit s => s != 0
  | .msurf n _ => n != 0
  | .cref _ => true
  | .node _ _ args => FTree.nonzeroList args
def FTree.nonzeroList : List FTree → Bool
  | [] => true
  | t :: ts => t.nonzero && FTree.nonzeroList ts
end

theorem litT_neg (σ : TSense) (s : Int) (h : s ≠ 0) : litT σ (-s) = !litT σ s := by
  unfold litT
  by_cases hp : s > 0
  · have : ¬ (-s > 0) := by omega
    simp [hp]; omega
  · have : -s > 0 := by omega
    simp [hp]; omega

/-! ## pot_flag -/

mutual
theorem potFlag_eval (m : Matching) (σ : TSense) (cv : Nat → Bool) :
    ∀ (g : Geom) (k : Nat), g.complFree = true →
      (potFlag g k).1.eval m σ cv = g.eval (surfValOf m σ) cv
  | .surf n sub, k, _ => by simp [potFlag, FTree.eval, Geom.eval]
  | .cref c, k, _ => by simp [potFlag, FTree.eval, Geom.eval]
  | .compl c, k, h => by simp [Geom.complFree] at h
  | .node op args, k, h => by
      simp only [Geom.complFree] at h
      have := potFlagList_eval m σ cv args k h
      cases op <;> simp [potFlag, FTree.eval, Geom.eval, this.1, this.2]
theorem potFlagList_eval (m : Matching) (σ : TSense) (cv : Nat → Bool) :
    ∀ (gs : List Geom) (k : Nat), Geom.complFreeList gs = true →
      FTree.evalAll m σ cv (potFlagList gs k).1 = Geom.evalAll (surfValOf m σ) cv gs ∧
      FTree.evalAny m σ cv (potFlagList gs k).1 = Geom.evalAny (surfValOf m σ) cv gs
  | [], k, _ => by simp [potFlagList, FTree.evalAll, FTree.evalAny, Geom.evalAll, Geom.evalAny]
  | g :: gs, k, h => by
      simp only [Geom.complFreeList, Bool.and_eq_true] at h
      have h1 := potFlag_eval m σ cv g k h.1
      have h2 := potFlagList_eval m σ cv gs (potFlag g k).2 h.2
      simp [potFlagList, FTree.evalAll, FTree.evalAny, Geom.evalAll, Geom.evalAny, h1, h2.1, h2.2]
end

/-- ids of a tree lie in `(lo, hi]` and are pairwise distinct -/
def IdsIn (ids : List Nat) (lo hi : Nat) : Prop := ids.Nodup ∧ ∀ i ∈ ids, lo < i ∧ i ≤ hi

theorem IdsIn.mono {ids lo hi lo' hi'} (h : IdsIn ids lo hi) (h1 : lo' ≤ lo) (h2 : hi ≤ hi') :
    IdsIn ids lo' hi' :=
  ⟨h.1, fun i hi_ => ⟨by have := (h.2 i hi_).1; omega, by have := (h.2 i hi_).2; omega⟩⟩

theorem IdsIn.append {a b lo mid hi} (ha : IdsIn a lo mid) (hb : IdsIn b mid hi) (hlm : lo ≤ mid)
    (hmh : mid ≤ hi) : IdsIn (a ++ b) lo hi := by
  refine ⟨?_, ?_⟩
  · rw [List.nodup_append]
    refine ⟨ha.1, hb.1, ?_⟩
    intro x hx y hy hxy
    have := (ha.2 x hx).2
    have := (hb.2 y hy).1
    omega
  · intro i hi_
    rw [List.mem_append] at hi_
    rcases hi_ with h | h
    · exact ⟨(ha.2 i h).1, by have := (ha.2 i h).2; omega⟩
    · exact ⟨by have := (hb.2 i h).1; omega, (hb.2 i h).2⟩

mutual
theorem potFlag_ids : ∀ (g : Geom) (k : Nat),
    k ≤ (potFlag g k).2 ∧ IdsIn (potFlag g k).1.ids k (potFlag g k).2
  | .surf n sub, k => by simp [potFlag, FTree.ids, IdsIn]
  | .cref c, k => by simp [potFlag, FTree.ids, IdsIn]
  | .compl c, k => by simp [potFlag, FTree.ids, IdsIn]
  | .node op args, k => by
      have h := potFlagList_ids args k
      simp only [potFlag, FTree.ids]
      refine ⟨by omega, ?_, ?_⟩
      · rw [List.nodup_cons]
        refine ⟨?_, h.2.1⟩
        intro hm
        have := (h.2.2 _ hm).2
        omega
      · intro i hi_
        rw [List.mem_cons] at hi_
        rcases hi_ with rfl | hi_
        · omega
        · have := h.2.2 i hi_; omega
theorem potFlagList_ids : ∀ (gs : List Geom) (k : Nat),
    k ≤ (potFlagList gs k).2 ∧ IdsIn (FTree.idsList (potFlagList gs k).1) k (potFlagList gs k).2
  | [], k => by simp [potFlagList, FTree.idsList, IdsIn]
  | g :: gs, k => by
      have h1 := potFlag_ids g k
      have h2 := potFlagList_ids gs (potFlag g k).2
      simp only [potFlagList, FTree.idsList]
      exact ⟨by omega, IdsIn.append h1.2 h2.2 h1.1 h2.1⟩
end

mutual
theorem potFlag_nonzero : ∀ (g : Geom) (k : Nat), g.nonzero = true → (potFlag g k).1.nonzero = true
  | .surf n sub, k, h => by simpa [potFlag, FTree.nonzero, Geom.nonzero] using h
  | .cref c, k, _ => by simp [potFlag, FTree.nonzero]
  | .compl c, k, _ => by simp [potFlag, FTree.nonzero]
  | .node op args, k, h => by
      simp only [Geom.nonzero] at h
      simpa [potFlag, FTree.nonzero] using potFlagList_nonzero args k h
theorem potFlagList_nonzero : ∀ (gs : List Geom) (k : Nat), Geom.nonzeroList gs = true →
    FTree.nonzeroList (potFlagList gs k).1 = true
  | [], k, _ => by simp [potFlagList, FTree.nonzeroList]
  | g :: gs, k, h => by
      simp only [Geom.nonzeroList, Bool.and_eq_true] at h
      simp [potFlagList, FTree.nonzeroList, potFlag_nonzero g k h.1, potFlagList_nonzero gs _ h.2]
end

end T4V

namespace T4V

/-! ## pot_expand_surfs -/

/-- every collection is non-empty and mentions no surface 0 -/
def MatchOK (m : Matching) : Prop := ∀ n ids, m.get? n = some ids → ids ≠ [] ∧ ∀ s ∈ ids, s ≠ 0

theorem evalAll_map_lit_neg (m : Matching) (σ : TSense) (cv : Nat → Bool) :
    ∀ ids : List Int, (∀ s ∈ ids, s ≠ 0) →
      FTree.evalAll m σ cv (ids.map fun s => FTree.lit (-s)) = !ids.any (litT σ)
  | [], _ => by simp [FTree.evalAll]
  | s :: ss, h => by
      have hs : s ≠ 0 := h s (by simp)
      have ih := evalAll_map_lit_neg m σ cv ss (fun x hx => h x (by simp [hx]))
      simp [FTree.evalAll, FTree.eval, litT_neg σ s hs, ih]

theorem evalAny_map_lit (m : Matching) (σ : TSense) (cv : Nat → Bool) :
    ∀ ids : List Int, FTree.evalAny m σ cv (ids.map FTree.lit) = ids.any (litT σ)
  | [] => by simp [FTree.evalAny]
  | s :: ss => by simp [FTree.evalAny, FTree.eval, evalAny_map_lit m σ cv ss]

theorem idsList_map_lit (f : Int → Int) : ∀ ids : List Int, FTree.idsList (ids.map fun s => FTree.lit (f s)) = []
  | [] => rfl
  | s :: ss => by simp [FTree.idsList, FTree.ids, idsList_map_lit f ss]

theorem expandedList_map_lit (f : Int → Int) : ∀ ids : List Int, (∀ s ∈ ids, f s ≠ 0) →
    FTree.expandedList (ids.map fun s => FTree.lit (f s)) = true
  | [], _ => rfl
  | s :: ss, h => by
      simp [FTree.expandedList, FTree.expanded, h s (by simp),
        expandedList_map_lit f ss (fun x hx => h x (by simp [hx]))]

theorem getLast?_mem {α} : ∀ (l : List α) (a : α), l.getLast? = some a → a ∈ l
  | [], _, h => by simp at h
  | [x], a, h => by simp at h; simp [h]
  | x :: y :: r, a, h => by
      have : (x :: y :: r).getLast? = (y :: r).getLast? := by simp [List.getLast?]
      rw [this] at h
      exact List.mem_cons_of_mem _ (getLast?_mem (y :: r) a h)

/-- the facet literal chosen by `pot_expand_surfs` is a member of the collection -/
theorem facet_pick_mem (ids : List Int) (j : Nat) (hne : ids ≠ []) (hj : ¬ j > ids.length) :
    (if j == 0 then ids.getLast?.getD 0 else ids.getD (j - 1) 0) ∈ ids := by
  by_cases h0 : j = 0
  · subst h0
    simp only [beq_self_eq_true, if_true]
    cases hl : ids.getLast? with
    | none => simp [List.getLast?_eq_none_iff] at hl; exact absurd hl hne
    | some a => simpa using getLast?_mem ids a hl
  · have : (j == 0) = false := by simpa using h0
    simp only [this, Bool.false_eq_true, if_false]
    have hlt : j - 1 < ids.length := by omega
    rw [List.getD_eq_getElem?_getD, List.getElem?_eq_getElem hlt]
    simp

structure ExpandPost (m : Matching) (σ : TSense) (cv : Nat → Bool) (tids : List Nat) (teval : Bool)
    (k : Nat) (t'ids : List Nat) (t'eval : Bool) (t'exp : Bool) (k' : Nat) : Prop where
  le : k ≤ k'
  eval : t'eval = teval
  expanded : t'exp = true
  ids : ∀ i ∈ t'ids, i ∈ tids ∨ (k < i ∧ i ≤ k')
  nodup : tids.Nodup → (∀ i ∈ tids, i ≤ k) → t'ids.Nodup

structure ExpandListPost (m : Matching) (σ : TSense) (cv : Nat → Bool) (ts : List FTree) (k : Nat)
    (ts' : List FTree) (k' : Nat) : Prop where
  le : k ≤ k'
  evalAll : FTree.evalAll m σ cv ts' = FTree.evalAll m σ cv ts
  evalAny : FTree.evalAny m σ cv ts' = FTree.evalAny m σ cv ts
  expanded : FTree.expandedList ts' = true
  ids : ∀ i ∈ FTree.idsList ts', i ∈ FTree.idsList ts ∨ (k < i ∧ i ≤ k')
  nodup : (FTree.idsList ts).Nodup → (∀ i ∈ FTree.idsList ts, i ≤ k) → (FTree.idsList ts').Nodup

mutual
theorem potExpand_ok (m : Matching) (hm : MatchOK m) (σ : TSense) (cv : Nat → Bool) :
    ∀ (t : FTree) (k : Nat) (t' : FTree) (k' : Nat), t.nonzero = true →
      potExpand m t k = .ok (t', k') →
      ExpandPost m σ cv t.ids (t.eval m σ cv) k t'.ids (t'.eval m σ cv) t'.expanded k'
  | .lit s, k, t', k', hz, h => by
      simp only [potExpand, Except.ok.injEq, Prod.mk.injEq] at h
      obtain ⟨rfl, rfl⟩ := h
      exact ⟨Nat.le_refl _, rfl, by simpa [FTree.expanded, FTree.nonzero] using hz,
        fun i hi => Or.inl hi, fun h _ => h⟩
  | .cref c, k, t', k', _, h => by
      simp only [potExpand, Except.ok.injEq, Prod.mk.injEq] at h
      obtain ⟨rfl, rfl⟩ := h
      exact ⟨Nat.le_refl _, rfl, rfl, fun i hi => Or.inl hi, fun h _ => h⟩
  | .msurf n sub, k, t', k', hz, h => by
      simp only [FTree.nonzero, bne_iff_ne, ne_eq] at hz
      simp only [potExpand] at h
      cases hg : m.get? n.natAbs with
      | none => simp [hg] at h
      | some ids =>
        obtain ⟨hne, hnz⟩ := hm _ _ hg
        simp only [hg] at h
        cases sub with
        | some j =>
          simp only at h
          by_cases hj : j > ids.length
          · simp [hj] at h
          · have hmem := facet_pick_mem ids j hne hj
            have hsv : surfValOf m σ n.natAbs (some j) =
                litT σ (if j == 0 then ids.getLast?.getD 0 else ids.getD (j - 1) 0) := by
              simp only [surfValOf, hg]
            generalize (if j == 0 then ids.getLast?.getD 0 else ids.getD (j - 1) 0) = x at h hmem hsv
            simp only [hj, if_false, Except.ok.injEq, Prod.mk.injEq] at h
            obtain ⟨rfl, rfl⟩ := h
            have hs0 := hnz _ hmem
            refine ⟨Nat.le_refl _, ?_, ?_, fun i hi => by simp [FTree.ids] at hi, fun _ _ => by simp [FTree.ids]⟩
            · simp only [FTree.eval, litSurf, hsv]
              by_cases hp : n > 0
              · simp [hp]
              · simp [hp, litT_neg σ _ hs0]
            · simp only [FTree.expanded, bne_iff_ne, ne_eq]
              by_cases hp : n > 0
              · simpa [hp] using hs0
              · simp only [hp, if_false]; omega
        | none =>
          have hsv : surfValOf m σ n.natAbs none = ids.any (litT σ) := by simp only [surfValOf, hg]
          cases ids with
          | nil => exact absurd rfl hne
          | cons a r =>
            cases r with
            | nil =>
              simp only [Except.ok.injEq, Prod.mk.injEq] at h
              obtain ⟨rfl, rfl⟩ := h
              have hs0 := hnz a (by simp)
              refine ⟨Nat.le_refl _, ?_, ?_, fun i hi => by simp [FTree.ids] at hi, fun _ _ => by simp [FTree.ids]⟩
              · simp only [FTree.eval, litSurf, hsv]
                by_cases hp : n > 0
                · simp [hp]
                · simp [hp, litT_neg σ _ hs0]
              · simp only [FTree.expanded, bne_iff_ne, ne_eq]
                by_cases hp : n > 0
                · simpa [hp] using hs0
                · simp only [hp, if_false]; omega
            | cons b r' =>
              simp only at h
              by_cases hneg : n < 0
              · simp only [hneg, if_true, Except.ok.injEq, Prod.mk.injEq] at h
                obtain ⟨rfl, rfl⟩ := h
                have hp : ¬ n > 0 := by omega
                refine ⟨by omega, ?_, ?_, ?_, ?_⟩
                · simp only [FTree.eval, litSurf, hsv, hp, if_false]
                  exact evalAll_map_lit_neg m σ cv (a :: b :: r') hnz
                · simp only [FTree.expanded]
                  exact expandedList_map_lit (fun s => -s) (a :: b :: r') (fun s hs => by have := hnz s hs; omega)
                · intro i hi
                  simp only [FTree.ids, idsList_map_lit (fun s => -s), List.mem_singleton] at hi
                  subst hi; exact Or.inr ⟨by omega, Nat.le_refl _⟩
                · intro _ _
                  have hil : FTree.idsList ((a :: b :: r').map fun s => FTree.lit (-s)) = [] :=
                    idsList_map_lit (fun s => -s) (a :: b :: r')
                  simp only [FTree.ids, hil]
                  simp
              · simp only [hneg, if_false, Except.ok.injEq, Prod.mk.injEq] at h
                obtain ⟨rfl, rfl⟩ := h
                have hp : n > 0 := by omega
                have hil : FTree.idsList ((a :: b :: r').map FTree.lit) = [] :=
                  idsList_map_lit (fun s => s) (a :: b :: r')
                refine ⟨by omega, ?_, ?_, ?_, ?_⟩
                · simp only [FTree.eval, litSurf, hsv, hp, if_true]
                  exact evalAny_map_lit m σ cv (a :: b :: r')
                · simp only [FTree.expanded]
                  exact expandedList_map_lit (fun s => s) (a :: b :: r') (fun s hs => hnz s hs)
                · intro i hi
                  simp only [FTree.ids, hil, List.mem_singleton] at hi
                  subst hi; exact Or.inr ⟨by omega, Nat.le_refl _⟩
                · intro _ _
                  simp only [FTree.ids, hil]
                  simp
  | .node nid op args, k, t', k', hz, h => by
      simp only [FTree.nonzero] at hz
      simp only [potExpand] at h
      cases hr : potExpandList m args k with
      | error e => simp [hr, bind, Except.bind] at h
      | ok r =>
        obtain ⟨args', k2⟩ := r
        simp only [hr, bind, Except.bind, Except.ok.injEq, Prod.mk.injEq] at h
        obtain ⟨rfl, rfl⟩ := h
        have ih := potExpandList_ok m hm σ cv args k args' k2 hz hr
        refine ⟨ih.le, ?_, ?_, ?_, ?_⟩
        · cases op <;> simp [FTree.eval, ih.evalAll, ih.evalAny]
        · simpa [FTree.expanded] using ih.expanded
        · intro i hi
          simp only [FTree.ids, List.mem_cons] at hi ⊢
          rcases hi with rfl | hi
          · exact Or.inl (Or.inl rfl)
          · rcases ih.ids i hi with h1 | h1
            · exact Or.inl (Or.inr h1)
            · exact Or.inr h1
        · intro hnd hle
          simp only [FTree.ids, List.nodup_cons] at hnd ⊢
          refine ⟨?_, ih.nodup hnd.2 (fun i hi => hle i (by simp [FTree.ids, hi]))⟩
          intro hmem
          rcases ih.ids nid hmem with h1 | h1
          · exact hnd.1 h1
          · have := hle nid (by simp [FTree.ids]); omega

theorem potExpandList_ok (m : Matching) (hm : MatchOK m) (σ : TSense) (cv : Nat → Bool) :
    ∀ (ts : List FTree) (k : Nat) (ts' : List FTree) (k' : Nat), FTree.nonzeroList ts = true →
      potExpandList m ts k = .ok (ts', k') → ExpandListPost m σ cv ts k ts' k'
  | [], k, ts', k', _, h => by
      simp only [potExpandList, Except.ok.injEq, Prod.mk.injEq] at h
      obtain ⟨rfl, rfl⟩ := h
      exact ⟨Nat.le_refl _, rfl, rfl, rfl, fun i hi => Or.inl hi, fun h _ => h⟩
  | t :: ts, k, ts', k', hz, h => by
      simp only [FTree.nonzeroList, Bool.and_eq_true] at hz
      simp only [potExpandList] at h
      cases h1 : potExpand m t k with
      | error e => simp [h1, bind, Except.bind] at h
      | ok r1 =>
        obtain ⟨t1, k1⟩ := r1
        simp only [h1, bind, Except.bind] at h
        cases h2 : potExpandList m ts k1 with
        | error e => simp [h2] at h
        | ok r2 =>
          obtain ⟨ts2, k2⟩ := r2
          simp only [h2, Except.ok.injEq, Prod.mk.injEq] at h
          obtain ⟨rfl, rfl⟩ := h
          have p1 := potExpand_ok m hm σ cv t k t1 k1 hz.1 h1
          have p2 := potExpandList_ok m hm σ cv ts k1 ts2 k2 hz.2 h2
          refine ⟨Nat.le_trans p1.le p2.le, ?_, ?_, ?_, ?_, ?_⟩
          · simp [FTree.evalAll, p1.eval, p2.evalAll]
          · simp [FTree.evalAny, p1.eval, p2.evalAny]
          · simp [FTree.expandedList, p1.expanded, p2.expanded]
          · intro i hi
            simp only [FTree.idsList, List.mem_append] at hi ⊢
            rcases hi with hi | hi
            · rcases p1.ids i hi with h' | h'
              · exact Or.inl (Or.inl h')
              · exact Or.inr ⟨h'.1, Nat.le_trans h'.2 p2.le⟩
            · rcases p2.ids i hi with h' | h'
              · exact Or.inl (Or.inr h')
              · exact Or.inr ⟨Nat.lt_of_le_of_lt p1.le h'.1, h'.2⟩
          · intro hnd hle
            simp only [FTree.idsList] at hnd hle ⊢
            rw [List.nodup_append] at hnd ⊢
            obtain ⟨n1, n2, hdis⟩ := hnd
            have le1 : ∀ i ∈ t.ids, i ≤ k := fun i hi => hle i (List.mem_append_left _ hi)
            have le2 : ∀ i ∈ FTree.idsList ts, i ≤ k := fun i hi => hle i (List.mem_append_right _ hi)
            refine ⟨p1.nodup n1 le1, p2.nodup n2 (fun i hi => Nat.le_trans (le2 i hi) p1.le), ?_⟩
            intro x hx y hy hxy
            subst hxy
            rcases p1.ids x hx with hx1 | hx1 <;> rcases p2.ids x hy with hy1 | hy1
            · exact hdis x hx1 x hy1 rfl
            · have := le1 x hx1; have := p1.le; omega
            · have := le2 x hy1; omega
            · omega
end

end T4V
