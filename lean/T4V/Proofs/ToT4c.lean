import T4V.Proofs.ToT4b
/-!
# Correctness of `pot_to_t4_cell`, `convert_cellref`, `pot_convert` (caches, fresh ids, fuel)
-/
namespace T4V

theorem add_fresh {σ : TSense} {vols : List (Nat × Vol)} {k : Nat} (v : Vol) (hk : ¬ hasKey vols k) :
    (∀ k' b, Denotes vols σ k' b → Denotes (dictSet vols k v) σ k' b) ∧
    (∀ k' v', dictGet? vols k' = some v' → dictGet? (dictSet vols k v) k' = some v') ∧
    (∀ k', hasKey (dictSet vols k v) k' ↔ hasKey vols k' ∨ k' = k) ∧
    dictGet? (dictSet vols k v) k = some v := by
  rw [dictSet_fresh v hk]
  refine ⟨fun k' b h => h.ext_fresh hk v, ?_, fun k' => hasKey_append, dictGet?_append_self hk⟩
  intro k' v' h
  have hne : k' ≠ k := by intro e; subst e; exact hk (dictGet?_some_hasKey h)
  rw [dictGet?_append_ne hne]; exact h

structure TreeOK (t : FTree) (st : CState) : Prop where
  expanded : t.expanded = true
  nodup : t.ids.Nodup
  fresh : ∀ i ∈ t.ids, i ≤ st.next ∧ ¬ hasKey st.vols i

structure ListOK (ts : List FTree) (st : CState) : Prop where
  expanded : FTree.expandedList ts = true
  nodup : (FTree.idsList ts).Nodup
  fresh : ∀ i ∈ FTree.idsList ts, i ≤ st.next ∧ ¬ hasKey st.vols i

theorem fresh_step {σ ids st st'} {l : List Nat} (hs : Step σ ids st st')
    (hf : ∀ i ∈ l, i ≤ st.next ∧ ¬ hasKey st.vols i) (hd : ∀ i ∈ l, i ∉ ids) :
    ∀ i ∈ l, i ≤ st'.next ∧ ¬ hasKey st'.vols i := by
  intro i hi
  refine ⟨Nat.le_trans (hf i hi).1 hs.le, ?_⟩
  intro hk
  rcases hs.keys i hk with h | h | h
  · exact (hf i hi).2 h
  · exact hd i hi h
  · have := (hf i hi).1; omega

structure Out (σ : TSense) (cv : Nat → Bool) (ids : List Nat) (st st' : CState) (b : Bool) (r : Option Nat) : Prop where
  ok : StOK σ cv st'
  step : Step σ ids st st'
  res : ResOK σ st'.vols b r

/-- a volume whose EQUA part alone denotes `b` -/
def PlainVol (σ : TSense) (vols : List (Nat × Vol)) (id : Nat) (b : Bool) : Prop :=
  ∃ v, dictGet? vols id = some v ∧ v.ops = none ∧ equa σ v = b

theorem PlainVol.denotes {σ vols id b} (h : PlainVol σ vols id b) : Denotes vols σ id b := by
  obtain ⟨v, hg, ho, he⟩ := h
  exact ⟨1, by simp [den, hg, ho, he]⟩

theorem convertSurface_ok {σ : TSense} {cv : Nat → Bool} {st : CState} (hst : StOK σ cv st) (s : Int) (hs : s ≠ 0)
    (origin : List (Nat × Nat)) :
    StOK σ cv (convertSurface s origin st).2 ∧ Step σ [] st (convertSurface s origin st).2 ∧
    PlainVol σ (convertSurface s origin st).2.vols (convertSurface s origin st).1 (litT σ s) := by
  unfold convertSurface
  cases hf : st.surfCache.find? (·.1 == s) with
  | some p =>
    obtain ⟨s', id⟩ := p
    have hmem := List.mem_of_find?_eq_some hf
    have hs' : s' = s := by simpa using List.find?_some hf
    subst hs'
    simp only [Option.map_some]
    exact ⟨hst, Step.refl σ [] st, (hst.surf s' id hmem).2⟩
  | none =>
    simp only [Option.map_none]
    have hk : ¬ hasKey st.vols (st.next + 1) := fun h => by have := hst.below _ h; omega
    generalize hv : ({ pluses := (convEqua [s]).1, minuses := (convEqua [s]).2, origin := origin } : Vol) = v
    have hequa : equa σ v = litT σ s := by
      subst hv
      have := equa_convEqua σ [s] (by simpa using hs) none origin true
      simpa using this
    have hops : v.ops = none := by subst hv; rfl
    obtain ⟨a1, a2, a3, a4⟩ := add_fresh (σ := σ) v hk
    refine ⟨⟨?_, ?_, ?_⟩, ⟨by simp, a1, a2, ?_⟩, ⟨v, a4, hops, hequa⟩⟩
    · intro k hk'
      rcases (a3 k).mp hk' with h | h
      · have := hst.below k h; simp; omega
      · simp [h]
    · intro s2 id2 hm
      simp only [List.mem_append, List.mem_singleton, Prod.mk.injEq] at hm
      rcases hm with hm | ⟨rfl, rfl⟩
      · obtain ⟨hz, v2, hg, ho, he⟩ := hst.surf s2 id2 hm
        exact ⟨hz, v2, a2 _ _ hg, ho, he⟩
      · exact ⟨hs, v, a4, hops, hequa⟩
    · intro c id hm
      exact a1 _ _ (hst.cell c id hm)
    · intro k hk'
      rcases (a3 k).mp hk' with h | h
      · exact Or.inl h
      · exact Or.inr (Or.inr (by omega))

end T4V

namespace T4V

theorem lits_nonzero : ∀ args : List FTree, FTree.expandedList args = true →
    ∀ s ∈ args.filterMap litOf, s ≠ 0
  | [], _, s, hs => by simp at hs
  | t :: ts, h, s, hs => by
      simp only [FTree.expandedList, Bool.and_eq_true] at h
      cases t with
      | lit a =>
        simp only [List.filterMap_cons, litOf, List.mem_cons] at hs
        rcases hs with rfl | hs
        · simpa [FTree.expanded] using h.1
        · exact lits_nonzero ts h.2 s hs
      | msurf n sub => simp [FTree.expanded] at h
      | cref c =>
        have : (FTree.cref c :: ts).filterMap litOf = ts.filterMap litOf := by rw [List.filterMap_cons]; rfl
        rw [this] at hs; exact lits_nonzero ts h.2 s hs
      | node nid op a =>
        have : (FTree.node nid op a :: ts).filterMap litOf = ts.filterMap litOf := by rw [List.filterMap_cons]; rfl
        rw [this] at hs; exact lits_nonzero ts h.2 s hs

theorem expanded_of_mem : ∀ (args : List FTree) (t : FTree), FTree.expandedList args = true → t ∈ args →
    t.expanded = true
  | [], t, _, h => by simp at h
  | x :: xs, t, hx, h => by
      simp only [FTree.expandedList, Bool.and_eq_true] at hx
      rw [List.mem_cons] at h
      rcases h with rfl | h
      · exact hx.1
      · exact expanded_of_mem xs t hx.2 h

theorem equa_congr (σ : TSense) (v v' : Vol) (h1 : v.pluses = v'.pluses) (h2 : v.minuses = v'.minuses) :
    equa σ v = equa σ v' := by unfold equa; rw [h1, h2]

theorem filterMap_id_length_of_no_none : ∀ l : List (Option Nat), l.any Option.isNone = false →
    (l.filterMap id).length = l.length
  | [], _ => rfl
  | none :: _, h => by simp at h
  | some a :: r, h => by
      have : r.any Option.isNone = false := by simpa using h
      simp [filterMap_id_length_of_no_none r this]

theorem resVals_length {σ vols} : ∀ bs rs, ResVals σ vols bs rs → bs.length = rs.length
  | [], [], _ => rfl
  | [], _ :: _, h => by simp [ResVals] at h
  | _ :: _, [], h => by simp [ResVals] at h
  | _ :: bs, _ :: rs, h => by simp [resVals_length bs rs h.2]

theorem pureMain_parts (args : List FTree) (h : args.all FTree.isSurface = true) :
    nodesOf args = [] ∧ crefsOf args = [] := by
  induction args with
  | nil => simp [nodesOf, crefsOf]
  | cons t ts ih =>
    simp only [List.all_cons, Bool.and_eq_true] at h
    obtain ⟨e1, e2⟩ := ih h.2
    cases t with
    | lit s => exact ⟨by simpa [nodesOf, FTree.isSurface] using e1, by simpa [crefsOf] using e2⟩
    | msurf n sub => exact ⟨by simpa [nodesOf, FTree.isSurface] using e1, by simpa [crefsOf] using e2⟩
    | cref c => simp [FTree.isSurface] at h
    | node _ _ _ => simp [FTree.isSurface] at h

end T4V
