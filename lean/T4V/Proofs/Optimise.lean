import T4V.Proofs.Expand
/-!
# pot_optimise preserves the Boolean function; `none` only for patently empty trees
-/
namespace T4V

mutual
/-- no intersection node lists one surface with both signs among its direct literals -/
def FTree.noBoth : FTree → Bool
  | .node _ .inter args => !((litsPos args).any fun s => (litsNeg args).contains s) && FTree.noBothList args
  | .node _ .union args => FTree.noBothList args
  | _ => true
def FTree.noBothList : List FTree → Bool
  | [] => true
  | t :: ts => t.noBoth && FTree.noBothList ts
end

theorem flatten_evalAll (m : Matching) (σ : TSense) (cv : Nat → Bool) :
    ∀ ts : List FTree, FTree.evalAll m σ cv (flattenArgs .inter ts) = FTree.evalAll m σ cv ts
  | [] => by simp [flattenArgs]
  | t :: ts => by
      have ih := flatten_evalAll m σ cv ts
      have app : ∀ a b : List FTree, FTree.evalAll m σ cv (a ++ b) =
          (FTree.evalAll m σ cv a && FTree.evalAll m σ cv b) := by
        intro a b
        induction a with
        | nil => simp [FTree.evalAll]
        | cons x xs ihx => simp [FTree.evalAll, ihx, Bool.and_assoc]
      cases t with
      | node id op a =>
        cases op with
        | inter => simp [flattenArgs, app, ih, FTree.evalAll, FTree.eval]
        | union => simp [flattenArgs, app, ih, FTree.evalAll]
      | lit s => simp [flattenArgs, app, ih, FTree.evalAll]
      | msurf n sub => simp [flattenArgs, app, ih, FTree.evalAll]
      | cref c => simp [flattenArgs, app, ih, FTree.evalAll]

theorem flatten_evalAny (m : Matching) (σ : TSense) (cv : Nat → Bool) :
    ∀ ts : List FTree, FTree.evalAny m σ cv (flattenArgs .union ts) = FTree.evalAny m σ cv ts
  | [] => by simp [flattenArgs]
  | t :: ts => by
      have ih := flatten_evalAny m σ cv ts
      have app : ∀ a b : List FTree, FTree.evalAny m σ cv (a ++ b) =
          (FTree.evalAny m σ cv a || FTree.evalAny m σ cv b) := by
        intro a b
        induction a with
        | nil => simp [FTree.evalAny]
        | cons x xs ihx => simp [FTree.evalAny, ihx, Bool.or_assoc]
      cases t with
      | node id op a =>
        cases op with
        | inter => simp [flattenArgs, app, ih, FTree.evalAny]
        | union => simp [flattenArgs, app, ih, FTree.evalAny, FTree.eval]
      | lit s => simp [flattenArgs, app, ih, FTree.evalAny]
      | msurf n sub => simp [flattenArgs, app, ih, FTree.evalAny]
      | cref c => simp [flattenArgs, app, ih, FTree.evalAny]

theorem idsList_append : ∀ a b : List FTree, FTree.idsList (a ++ b) = FTree.idsList a ++ FTree.idsList b
  | [], b => by simp [FTree.idsList]
  | x :: xs, b => by simp [FTree.idsList, idsList_append xs b]

theorem expandedList_append : ∀ a b : List FTree,
    FTree.expandedList (a ++ b) = (FTree.expandedList a && FTree.expandedList b)
  | [], b => by simp [FTree.expandedList]
  | x :: xs, b => by simp [FTree.expandedList, expandedList_append xs b, Bool.and_assoc]

theorem noBothList_append : ∀ a b : List FTree,
    FTree.noBothList (a ++ b) = (FTree.noBothList a && FTree.noBothList b)
  | [], b => by simp [FTree.noBothList]
  | x :: xs, b => by simp [FTree.noBothList, noBothList_append xs b, Bool.and_assoc]

theorem flatten_ids (op : Op) : ∀ ts : List FTree,
    (FTree.idsList (flattenArgs op ts)).Sublist (FTree.idsList ts)
  | [] => by simp [flattenArgs]
  | t :: ts => by
      have ih := flatten_ids op ts
      cases t with
      | node id op' a =>
        simp only [flattenArgs]
        by_cases h : op' = op
        · simp only [h, if_true, idsList_append, FTree.idsList, FTree.ids]
          exact List.Sublist.append (List.sublist_cons_self _ _) ih
        · simp only [h, if_false, idsList_append, FTree.idsList, FTree.ids, List.append_nil]
          exact List.Sublist.append (List.Sublist.refl _) ih
      | lit s => simpa [flattenArgs, FTree.idsList, FTree.ids] using ih
      | msurf n sub => simpa [flattenArgs, FTree.idsList, FTree.ids] using ih
      | cref c => simpa [flattenArgs, FTree.idsList, FTree.ids] using ih

theorem flatten_expanded (op : Op) : ∀ ts : List FTree, FTree.expandedList ts = true →
    FTree.expandedList (flattenArgs op ts) = true
  | [], _ => by simp [flattenArgs, FTree.expandedList]
  | t :: ts, h => by
      simp only [FTree.expandedList, Bool.and_eq_true] at h
      have ih := flatten_expanded op ts h.2
      cases t with
      | node id op' a =>
        simp only [flattenArgs]
        by_cases h' : op' = op
        · simp only [h', if_true, expandedList_append, ih, Bool.and_true]
          simpa [FTree.expanded] using h.1
        · simp [h', expandedList_append, ih, FTree.expandedList, h.1]
      | lit s => simp [flattenArgs, FTree.expandedList, ih, h.1]
      | msurf n sub => simp [flattenArgs, FTree.expandedList, ih, h.1]
      | cref c => simp [flattenArgs, FTree.expandedList, ih, h.1]

theorem flatten_noBoth (op : Op) : ∀ ts : List FTree, FTree.noBothList ts = true →
    FTree.noBothList (flattenArgs op ts) = true
  | [], _ => by simp [flattenArgs, FTree.noBothList]
  | t :: ts, h => by
      simp only [FTree.noBothList, Bool.and_eq_true] at h
      have ih := flatten_noBoth op ts h.2
      cases t with
      | node id op' a =>
        simp only [flattenArgs]
        by_cases h' : op' = op
        · simp only [h', if_true, noBothList_append, ih, Bool.and_true]
          have h1 := h.1
          cases op' <;> simp [FTree.noBoth] at h1 <;> simp [h1]
        · simp [h', noBothList_append, ih, FTree.noBothList, h.1]
      | lit s => simp [flattenArgs, FTree.noBothList, ih, FTree.noBoth]
      | msurf n sub => simp [flattenArgs, FTree.noBothList, ih, FTree.noBoth]
      | cref c => simp [flattenArgs, FTree.noBothList, ih, FTree.noBoth]

/-- a surface listed with both signs makes the conjunction false -/
theorem both_signs_false (m : Matching) (σ : TSense) (cv : Nat → Bool) (ts : List FTree)
    (h : ((litsPos ts).any fun s => (litsNeg ts).contains s) = true) :
    FTree.evalAll m σ cv ts = false := by
  rw [List.any_eq_true] at h
  obtain ⟨s, hp, hn⟩ := h
  have memAll : ∀ (ts : List FTree) (t : FTree), t ∈ ts → FTree.evalAll m σ cv ts = true →
      FTree.eval m σ cv t = true := by
    intro ts
    induction ts with
    | nil => intro t ht; simp at ht
    | cons x xs ih =>
      intro t ht hall
      simp only [FTree.evalAll, Bool.and_eq_true] at hall
      rw [List.mem_cons] at ht
      rcases ht with rfl | ht
      · exact hall.1
      · exact ih t ht hall.2
  -- witnesses
  simp only [litsPos, List.mem_filterMap] at hp
  obtain ⟨tp, htp, hpe⟩ := hp
  have hn' : s ∈ litsNeg ts := by simpa using hn
  simp only [litsNeg, List.mem_filterMap] at hn'
  obtain ⟨tn, htn, hne⟩ := hn'
  cases hall : FTree.evalAll m σ cv ts with
  | false => rfl
  | true =>
    have e1 := memAll ts tp htp hall
    have e2 := memAll ts tn htn hall
    cases tp with
    | lit a =>
      cases tn with
      | lit b =>
        simp only at hpe hne
        by_cases ha : a > 0
        · by_cases hb : b < 0
          · simp only [ha, if_true, Option.some.injEq] at hpe
            simp only [hb, if_true, Option.some.injEq] at hne
            have hb' : ¬ b > 0 := by omega
            simp only [FTree.eval, litT, ha, if_true] at e1
            simp only [FTree.eval, litT, hb', if_false, Bool.not_eq_true'] at e2
            rw [hpe] at e1; rw [hne] at e2
            rw [e1] at e2; exact absurd e2 (by simp)
          · simp [hb] at hne
        · simp [ha] at hpe
      | msurf _ _ => simp at hne
      | cref _ => simp at hne
      | node _ _ _ => simp at hne
    | msurf _ _ => simp at hpe
    | cref _ => simp at hpe
    | node _ _ _ => simp at hpe

theorem potOptimise_inter (nid : Nat) (args : List FTree) :
    potOptimise (.node nid .inter args) =
      if (potOptimiseList args).any Option.isNone = true then none
      else if ((litsPos (flattenArgs .inter ((potOptimiseList args).filterMap id))).any fun s =>
              (litsNeg (flattenArgs .inter ((potOptimiseList args).filterMap id))).contains s) = true then none
      else some (.node nid .inter (flattenArgs .inter ((potOptimiseList args).filterMap id))) := by
  rw [potOptimise]
  simp only [decide_true, Bool.true_and, reduceCtorEq, if_false]

theorem potOptimise_union (nid : Nat) (args : List FTree) :
    potOptimise (.node nid .union args) =
      some (.node nid .union (flattenArgs .union ((potOptimiseList args).filterMap id))) := by
  rw [potOptimise]
  simp only [reduceCtorEq, decide_false, Bool.false_and, Bool.false_eq_true, if_false, if_true]

structure OptPost (m : Matching) (σ : TSense) (cv : Nat → Bool) (t : FTree) (r : Option FTree) : Prop where
  some_ok : ∀ t', r = some t' → t'.eval m σ cv = t.eval m σ cv ∧ t'.expanded = true ∧
    t'.noBoth = true ∧ t'.ids.Sublist t.ids
  none_ok : r = none → t.eval m σ cv = false

structure OptListPost (m : Matching) (σ : TSense) (cv : Nat → Bool) (ts : List FTree)
    (rs : List (Option FTree)) : Prop where
  /-- kept children evaluate like the originals, dropped ones are false -/
  evalAny : FTree.evalAny m σ cv (rs.filterMap id) = FTree.evalAny m σ cv ts
  evalAll : rs.any Option.isNone = false → FTree.evalAll m σ cv (rs.filterMap id) = FTree.evalAll m σ cv ts
  dead : rs.any Option.isNone = true → FTree.evalAll m σ cv ts = false
  expanded : FTree.expandedList (rs.filterMap id) = true
  noBoth : FTree.noBothList (rs.filterMap id) = true
  ids : (FTree.idsList (rs.filterMap id)).Sublist (FTree.idsList ts)

mutual
theorem potOptimise_ok (m : Matching) (σ : TSense) (cv : Nat → Bool) :
    ∀ t : FTree, t.expanded = true → OptPost m σ cv t (potOptimise t)
  | .lit s, h => by
      refine ⟨?_, by simp [potOptimise]⟩
      intro t' ht'
      simp only [potOptimise, Option.some.injEq] at ht'
      subst ht'
      exact ⟨rfl, h, rfl, List.Sublist.refl _⟩
  | .msurf n sub, h => by simp [FTree.expanded] at h
  | .cref c, h => by
      refine ⟨?_, by simp [potOptimise]⟩
      intro t' ht'
      simp only [potOptimise, Option.some.injEq] at ht'
      subst ht'
      exact ⟨rfl, h, rfl, List.Sublist.refl _⟩
  | .node nid op args, h => by
      simp only [FTree.expanded] at h
      have ih := potOptimiseList_ok m σ cv args h
      cases op with
      | inter =>
        rw [potOptimise_inter]
        by_cases hn : (potOptimiseList args).any Option.isNone = true
        · -- an empty child kills the intersection
          rw [if_pos hn]
          exact ⟨fun t' ht' => (by cases ht'), fun _ => by simpa [FTree.eval] using ih.dead hn⟩
        · have hn' : (potOptimiseList args).any Option.isNone = false := by
            cases hx : (potOptimiseList args).any Option.isNone with
            | true => exact absurd hx hn
            | false => rfl
          rw [if_neg hn]
          by_cases hb : ((litsPos (flattenArgs .inter ((potOptimiseList args).filterMap id))).any fun s =>
              (litsNeg (flattenArgs .inter ((potOptimiseList args).filterMap id))).contains s) = true
          · rw [if_pos hb]
            refine ⟨fun t' ht' => (by cases ht'), fun _ => ?_⟩
            have := both_signs_false m σ cv _ hb
            rw [flatten_evalAll, ih.evalAll hn'] at this
            simpa [FTree.eval] using this
          · have hb' : ((litsPos (flattenArgs .inter ((potOptimiseList args).filterMap id))).any fun s =>
              (litsNeg (flattenArgs .inter ((potOptimiseList args).filterMap id))).contains s) = false := by
              cases hx : ((litsPos (flattenArgs .inter ((potOptimiseList args).filterMap id))).any fun s =>
                (litsNeg (flattenArgs .inter ((potOptimiseList args).filterMap id))).contains s) with
              | true => exact absurd hx hb
              | false => rfl
            rw [if_neg hb]
            refine ⟨?_, fun hh => by cases hh⟩
            intro t' ht'
            simp only [Option.some.injEq] at ht'
            subst ht'
            refine ⟨?_, ?_, ?_, ?_⟩
            · simp only [FTree.eval, flatten_evalAll, ih.evalAll hn']
            · simpa only [FTree.expanded] using flatten_expanded .inter _ ih.expanded
            · simp only [FTree.noBoth, hb', Bool.not_false, Bool.true_and]
              exact flatten_noBoth .inter _ ih.noBoth
            · simp only [FTree.ids]
              exact List.Sublist.cons_cons _ ((flatten_ids .inter _).trans ih.ids)
      | union =>
        rw [potOptimise_union]
        refine ⟨?_, fun hh => by cases hh⟩
        intro t' ht'
        simp only [Option.some.injEq] at ht'
        subst ht'
        refine ⟨?_, ?_, ?_, ?_⟩
        · simp only [FTree.eval, flatten_evalAny, ih.evalAny]
        · simpa only [FTree.expanded] using flatten_expanded .union _ ih.expanded
        · simpa only [FTree.noBoth] using flatten_noBoth .union _ ih.noBoth
        · simp only [FTree.ids]
          exact List.Sublist.cons_cons _ ((flatten_ids .union _).trans ih.ids)
theorem potOptimiseList_ok (m : Matching) (σ : TSense) (cv : Nat → Bool) :
    ∀ ts : List FTree, FTree.expandedList ts = true → OptListPost m σ cv ts (potOptimiseList ts)
  | [], _ => by
      refine ⟨by simp [potOptimiseList], by simp [potOptimiseList], by simp [potOptimiseList],
        by simp [potOptimiseList, FTree.expandedList], by simp [potOptimiseList, FTree.noBothList],
        by simp [potOptimiseList]⟩
  | t :: ts, h => by
      simp only [FTree.expandedList, Bool.and_eq_true] at h
      have h1 := potOptimise_ok m σ cv t h.1
      have h2 := potOptimiseList_ok m σ cv ts h.2
      cases hr : potOptimise t with
      | none =>
        have hf := h1.none_ok hr
        refine ⟨?_, ?_, ?_, ?_, ?_, ?_⟩
        · simp [potOptimiseList, hr, FTree.evalAny, hf, h2.evalAny]
        · intro hno; simp [potOptimiseList, hr] at hno
        · intro _; simp [FTree.evalAll, hf]
        · simpa [potOptimiseList, hr] using h2.expanded
        · simpa [potOptimiseList, hr] using h2.noBoth
        · simp only [potOptimiseList, hr, List.filterMap_cons_none, FTree.idsList]
          exact List.Sublist.trans h2.ids (List.sublist_append_right _ _)
      | some t' =>
        obtain ⟨he, hx, hnb, hids⟩ := h1.some_ok t' hr
        refine ⟨?_, ?_, ?_, ?_, ?_, ?_⟩
        · simp [potOptimiseList, hr, FTree.evalAny, he, h2.evalAny]
        · intro hno
          have : (potOptimiseList ts).any Option.isNone = false := by
            simpa [potOptimiseList, hr] using hno
          simp [potOptimiseList, hr, FTree.evalAll, he, h2.evalAll this]
        · intro hd
          have : (potOptimiseList ts).any Option.isNone = true := by
            simpa [potOptimiseList, hr] using hd
          simp [FTree.evalAll, h2.dead this]
        · simp [potOptimiseList, hr, FTree.expandedList, hx, h2.expanded]
        · simp [potOptimiseList, hr, FTree.noBothList, hnb, h2.noBoth]
        · simp only [potOptimiseList, hr, List.filterMap_cons_some, FTree.idsList, id]
          exact List.Sublist.append hids h2.ids
end

end T4V
