/-!
# GEOMCOMP (model): `constructGeomCompT4`

Every non-fictive volume is filed under the composition named after the material and density of the MCNP cell
`idorigin[0][0]` (the cell at the bottom of the FILL chain; the volume's own number when it has no provenance);
names appear in the order in which they are first met.  Import-free.
-/
namespace T4V

structure GVol where
  id : Nat
  fictive : Bool
  origin : List (Nat × Nat)
deriving Repr, DecidableEq, Inhabited

structure GCell where
  mat : String
  rho : Option String
deriving Repr, DecidableEq, Inhabited

/-- the MCNP cell whose material the volume takes -/
def GVol.owner (v : GVol) : Nat :=
  match v.origin with
  | (a, _) :: _ => a
  | [] => v.id

/-- `materialID` or `materialID + '_' + density` -/
def compName (c : GCell) : String :=
  match c.rho with
  | none => c.mat
  | some d => c.mat ++ "_" ++ d

/-- `dic_partialGeomComp[name].append(k)`, a new name going to the end -/
def addTo (groups : List (String × List Nat)) (name : String) (k : Nat) : List (String × List Nat) :=
  if groups.any (·.1 == name) then groups.map fun g => if g.1 == name then (g.1, g.2 ++ [k]) else g
  else groups ++ [(name, [k])]

def geomCompFrom (cells : Nat → Option GCell) : List GVol → List (String × List Nat) → Option (List (String × List Nat))
  | [], g => some g
  | v :: vs, g =>
    if v.fictive then geomCompFrom cells vs g else
    match cells v.owner with
    | none => none                         -- KeyError on the cell dictionary
    | some c => geomCompFrom cells vs (addTo g (compName c) v.id)

/-- `constructGeomCompT4`: (name, volumes) in the order of the GEOMCOMP block; the declared count is the length -/
def geomComp (cells : Nat → Option GCell) (vols : List GVol) : Option (List (String × List Nat)) :=
  geomCompFrom cells vols []

/-- the volumes filed under a name -/
def filedUnder (groups : List (String × List Nat)) (name : String) : List Nat :=
  match groups.find? (·.1 == name) with
  | some g => g.2
  | none => []

end T4V
