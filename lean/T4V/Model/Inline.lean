import T4V.Model.Tree
/-!
# `CellInlining.inline_cells_worker` (model): cell references selected for inlining are replaced by
the referenced cell's tree, recursively.  Import-free.
-/
namespace T4V

def geomOf (cells : List (Nat × Geom)) (c : Nat) : Option Geom := (cells.find? (·.1 == c)).map (·.2)

mutual
/-- `inline_cells_worker` (the Python recursion has no cycle check: fuel) -/
def inlineWorker (cells : List (Nat × Geom)) (toInline : List Nat) : Nat → Geom → Option Geom
  | 0, _ => none
  | _ + 1, .surf n sub => some (.surf n sub)
  | _ + 1, .cref c => some (.cref c)              -- a bare leaf is returned unchanged
  | _ + 1, .compl c => some (.compl c)
  | fuel + 1, .node op args => (inlineArgs cells toInline fuel args).map (.node op)
/-- one argument of a node: a selected cell reference is replaced by the (recursively inlined) tree -/
def inlineArg (cells : List (Nat × Geom)) (toInline : List Nat) : Nat → Geom → Option Geom
  | 0, _ => none
  | fuel + 1, .cref c =>
      if toInline.contains c then
        match geomOf cells c with
        | some g => inlineWorker cells toInline fuel g
        | none => none                             -- KeyError
      else some (.cref c)
  | _ + 1, .surf n sub => some (.surf n sub)
  | fuel + 1, other => inlineWorker cells toInline fuel other
def inlineArgs (cells : List (Nat × Geom)) (toInline : List Nat) : Nat → List Geom → Option (List Geom)
  | 0, _ => none
  | _ + 1, [] => some []
  | fuel + 1, a :: as =>
      match inlineArg cells toInline fuel a, inlineArgs cells toInline fuel as with
      | some a', some as' => some (a' :: as')
      | _, _ => none
end

mutual
/-- `geometry_size`: number of leaves -/
def Geom.size : Geom → Nat
  | .node _ args => Geom.sizeList args
  | _ => 1
def Geom.sizeList : List Geom → Nat
  | [] => 0
  | g :: gs => g.size + Geom.sizeList gs
end

mutual
/-- `extract_subcells`: referenced cells, with multiplicity, in order -/
def Geom.subcells : Geom → List Nat
  | .node _ args => Geom.subcellsList args
  | _ => []
def Geom.subcellsList : List Geom → List Nat
  | [] => []
  | .cref c :: gs => c :: Geom.subcellsList gs
  | g :: gs => g.subcells ++ Geom.subcellsList gs
end

end T4V
