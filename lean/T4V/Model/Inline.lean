import T4V.Model.Tree
/-!
# `CellInlining.inline_cells_worker` (model): cell references selected for inlining are replaced by
the referenced cell's tree, recursively.  Import-free.
-/
namespace T4V

def geomOf (cells : List (Nat × Geom)) (c : Nat) : Option Geom := (cells.find? (·.1 == c)).map (·.2)

mutual
/-- `inline_cells_worker` (the Python recursion has no cycle check: fuel) -/
def inlineWorker (cells : List (Nat × Geom)) (toInline : List Nat) : Nat → Geom → Option Geom
  | 0, _ => none
  | _ + 1, .surf n sub => some (.surf n sub)
  | _ + 1, .cref c => some (.cref c)              -- a bare leaf is returned unchanged
  | _ + 1, .compl c => some (.compl c)
  | fuel + 1, .node op args => (inlineArgs cells toInline fuel args).map (.node op)
/-- one argument of a node: a selected cell reference is replaced by the (recursively inlined) tree -/
def inlineArg (cells : List (Nat × Geom)) (toInline : List Nat) : Nat → Geom → Option Geom
  | 0, _ => none
  | fuel + 1, .cref c =>
      if toInline.contains c then
        match geomOf cells c with
        | some g => inlineWorker cells toInline fuel g
        | none => none                             -- KeyError
      else some (.cref c)
  | _ + 1, .surf n sub => some (.surf n sub)
  | fuel + 1, other => inlineWorker cells toInline fuel other
def inlineArgs (cells : List (Nat × Geom)) (toInline : List Nat) : Nat → List Geom → Option (List Geom)
  | 0, _ => none
  | _ + 1, [] => some []
  | fuel + 1, a :: as =>
      match inlineArg cells toInline fuel a, inlineArgs cells toInline fuel as with
      | some a', some as' => some (a' :: as')
      | _, _ => none
end

mutual
/-- `geometry_size`: number of leaves -/
def Geom.size : Geom → Nat
  | .node _ args => Geom.sizeList args
  | _ => 1
def Geom.sizeList : List Geom → Nat
  | [] => 0
  | g :: gs => g.size + Geom.sizeList gs
end

mutual
/-- `extract_subcells`: referenced cells, with multiplicity, in order -/
def Geom.subcells : Geom → List Nat
  | .node _ args => Geom.subcellsList args
  | _ => []
def Geom.subcellsList : List Geom → List Nat
  | [] => []
  | .cref c :: gs => c :: Geom.subcellsList gs
  | g :: gs => g.subcells ++ Geom.subcellsList gs
end

/-! ## `inline_cells`: which cells are inlined -/

/-- `find_occurrences`, reduced to what `inline_cells` uses: for every cell referenced (directly or not)
from a level-0 cell, the number of references to it in the cells reachable from level 0.  `cells` =
(id, universe, geometry) in dictionary order; `none` = a referenced cell is missing (`KeyError`) -/
def occurrenceCounts (cells : List (Nat × Nat × Geom)) : Option (List (Nat × Nat)) :=
  let geom? (k : Nat) : Option Geom := (cells.find? (·.1 == k)).map (·.2.2)
  let bump (occ : List (Nat × Nat)) (c : Nat) : List (Nat × Nat) :=
    if occ.any (·.1 == c) then occ.map fun p => if p.1 == c then (c, p.2 + 1) else p else occ ++ [(c, 1)]
  -- depth-first over the key stack, `enqueued` = keys ever pushed
  let rec go : Nat → List Nat → List Nat → List (Nat × Nat) → Option (List (Nat × Nat))
    | 0, _, _, _ => none
    | _ + 1, [], _, occ => some occ
    | fuel + 1, key :: stack, enq, occ =>
        match geom? key with
        | none => none
        | some g =>
          let subs := g.subcells
          let occ' := subs.foldl bump occ
          let (stack', enq') := subs.foldl (fun (acc : List Nat × List Nat) c =>
            if acc.2.contains c then acc else (c :: acc.1, c :: acc.2)) (stack, enq)
          go fuel stack' enq' occ'
  let roots := (cells.filter (·.2.1 == 0)).map (·.1)
  go (cells.length + roots.length + 1) roots.reverse roots []

/-- `compute_inlining_scores` + the selection `score < max_inline_score` (IEEE doubles, as in the code) -/
def selectInline (cells : List (Nat × Nat × Geom)) (maxScore : Float) : Option (List Nat) := do
  let occ ← occurrenceCounts cells
  occ.filterMapM fun (c, n) =>
    match (cells.find? (·.1 == c)).map (·.2.2) with
    | none => none
    | some g =>
      let score : Float := if n ≤ 1 then 0 else g.size.toFloat / n.toFloat
      some (if score < maxScore then some c else none)

/-- `inline_cells`: every cell's geometry is rewritten in dictionary order, in place (later cells read
the already rewritten geometry of earlier ones) -/
def inlineAll (cells : List (Nat × Nat × Geom)) (maxScore : Float) : Option (List (Nat × Geom)) := do
  let sel ← selectInline cells maxScore
  if sel.isEmpty then some (cells.map fun c => (c.1, c.2.2)) else
  let rec go : List Nat → List (Nat × Geom) → Option (List (Nat × Geom))
    | [], cur => some cur
    | k :: ks, cur =>
        match geomOf cur k with
        | none => none
        | some g =>
          match inlineWorker cur sel 10000 g with
          | none => none
          | some g' => go ks (cur.map fun p => if p.1 == k then (k, g') else p)
  go (cells.map (·.1)) (cells.map fun c => (c.1, c.2.2))

end T4V
