/-!
# `ConstructCompositionT4.rescale_fractions` (model, generic scalar)
-/
namespace T4V

section
variable {α : Type} [Add α] [Mul α] [Div α] [OfNat α 0]

def sumList (l : List α) : α := l.foldr (· + ·) 0

/-- concentrations for an atom density `rho`: `cᵢ = fᵢ · rho / Σ f` -/
def rescaleFractions (fr : List α) (rho : α) : List α :=
  fr.map fun f => f * rho / sumList fr
end

end T4V
