import T4V.Model.Tree
/-!
# TRCL / FILL transformations on cells (model): `CellConversion.pot_transform`, `cell_transform`

Structure only.  A transformation is a token `tr` (the tuple of its twelve numbers in the code).  `pot_transform`
walks the tree: every surface leaf becomes a *fresh* surface number (`new_surf_key += 1`) that stands for "facet `sub`
of surface `|n|`, moved by `tr`" (the definition of the moved surface is `transformation()`, property C04; here the
pair is only recorded); every `CellRef(c)` becomes `CellRef(cell_transform(c, tr))`; `'^'` leaves are returned
unchanged.  `cell_transform` copies cell `c`, transforms its tree, stores the copy under a fresh cell number
(`new_cell_key += 1`) and remembers `(c, tr) ↦ new` in a cache (unless the caller switched the cache off).
Import-free.
-/
namespace T4V

/-- one `cell_transform` that really made a cell: `(c, tr) ↦ new`, with the tree before and after (ghost fields) -/
structure Made where
  cell : Nat
  tr : Nat
  new : Nat
  src : Geom
  dst : Geom
deriving Repr, Inhabited

structure PTSt where
  nextSurf : Nat                                   -- `new_surf_key`
  nextCell : Nat                                   -- `new_cell_key`
  cells : List (Nat × Geom)                        -- `dic_cell_mcnp` (geometry only)
  newSurfs : List (Nat × (Nat × Option Nat × Nat)) := []   -- new surface ↦ (source surface, facet, tr)
  cache : List ((Nat × Nat) × Nat) := []           -- `cell_transform_cache`
  made : List Made := []                           -- log of the cells created (ghost)
deriving Repr, Inhabited

def PTSt.cell? (st : PTSt) (c : Nat) : Option Geom := (st.cells.find? (·.1 == c)).map (·.2)
def PTSt.cached? (st : PTSt) (c tr : Nat) : Option Nat := (st.cache.find? (·.1 == (c, tr))).map (·.2)

/-- the bookkeeping at the end of `cell_transform`: the copy is stored under the next cell number -/
def PTSt.addCell (st : PTSt) (useCache : Bool) (c tr : Nat) (t t' : Geom) : PTSt :=
  { st with nextCell := st.nextCell + 1, cells := st.cells ++ [(st.nextCell + 1, t')],
            cache := if useCache then st.cache ++ [((c, tr), st.nextCell + 1)] else st.cache,
            made := st.made ++ [{ cell := c, tr, new := st.nextCell + 1, src := t, dst := t' }] }

mutual
/-- `pot_transform(p_tree, tr)` for a non-empty `tr` -/
def potTransform (tr : Nat) : Nat → Geom → PTSt → Except Err (Geom × PTSt)
  | 0, _, _ => .error .outOfFuel
  | fuel + 1, g, st =>
    match g with
    | .surf n sub =>
        let k := st.nextSurf + 1
        .ok (.surf (if n ≥ 0 then (k : Int) else -(k : Int)) none,
             { st with nextSurf := k, newSurfs := st.newSurfs ++ [(k, (n.natAbs, sub, tr))] })
    | .compl c => .ok (.compl c, st)
    | .cref c =>
        match cellTransform tr true fuel c st with
        | .ok (c', st') => .ok (.cref c', st')
        | .error e => .error e
    | .node op args =>
        match potTransformList tr fuel args st with
        | .ok (args', st') => .ok (.node op args', st')
        | .error e => .error e
def potTransformList (tr : Nat) : Nat → List Geom → PTSt → Except Err (List Geom × PTSt)
  | 0, _, _ => .error .outOfFuel
  | _ + 1, [], st => .ok ([], st)
  | fuel + 1, g :: gs, st =>
    match potTransform tr fuel g st with
    | .error e => .error e
    | .ok (g', st1) =>
      match potTransformList tr fuel gs st1 with
      | .error e => .error e
      | .ok (gs', st2) => .ok (g' :: gs', st2)
/-- `cell_transform(c, tr, cache)` for a non-empty `tr` -/
def cellTransform (tr : Nat) (useCache : Bool) : Nat → Nat → PTSt → Except Err (Nat × PTSt)
  | 0, _, _ => .error .outOfFuel
  | fuel + 1, c, st =>
    match (if useCache then st.cached? c tr else none) with
    | some k => .ok (k, st)
    | none =>
      match st.cell? c with
      | none => .error (.noCell c)
      | some t =>
        match potTransform tr fuel t st with
        | .error e => .error e
        | .ok (t', st1) => .ok (st1.nextCell + 1, st1.addCell useCache c tr t t')
end

end T4V
