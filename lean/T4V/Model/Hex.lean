import T4V.Num
/-!
# Hexagonal lattices (model): the vertex traversal of `Lattice.hexVertices` and the base vectors of
`hexLatticeBaseVectors`

`adj i j` (for `i < j`) is the adjacency table built by `hexSortSides`: `some v` when side planes `i` and
`j` meet in an edge of the prism (`v` stands for the vertex they define on the base plane), `none`
otherwise.  The geometric adjacency test itself (`areHexSidesAdjacent`) is not modelled.
-/
namespace T4V

variable {β : Type}

def adjGet (adj : Nat → Nat → Option β) (i j : Nat) : Option β := if i ≤ j then adj i j else adj j i

/-- the `for i in range(6)` scan: first unseen side adjacent to `cur` -/
def hexNext (adj : Nat → Nat → Option β) (seen : List Nat) (cur : Nat) : Option (Nat × β) :=
  (List.range 6).findSome? fun i =>
    if seen.contains i then none else (adjGet adj cur i).map fun v => (i, v)

/-- `hexVertices`: the `while len(vertices) < 6` loop; `none` = the loop would not terminate -/
def hexTraverseAux (adj : Nat → Nat → Option β) (first : Nat) : Nat → List Nat → Nat → List β → Option (List β)
  | 0, _, _, acc => if acc.length == 6 then some acc.reverse else none
  | fuel + 1, seen, cur, acc =>
      if acc.length == 6 then some acc.reverse else
      let seen := if seen.length == 6 then seen.erase first else seen
      match hexNext adj seen cur with
      | some (i, v) => hexTraverseAux adj first fuel (i :: seen) i (v :: acc)
      | none => none

def hexTraverse (adj : Nat → Nat → Option β) (first : Nat) : Option (List β) :=
  hexTraverseAux adj first 7 [first] first []

/-- adjacency table of a hexagon whose sides, going round, carry the labels `arr` (a list of the six
labels); the vertex between two sides is named by the sorted pair of their labels -/
def adjOfCycle (arr : List Nat) (i j : Nat) : Option (Nat × Nat) :=
  let pairs := (List.range 6).map fun k => (arr.getD k 0, arr.getD ((k + 1) % 6) 0)
  if pairs.any (fun (a, b) => (a == i && b == j) || (a == j && b == i)) then some (i, j) else none

def sortPair (a b : Nat) : Nat × Nat := if a ≤ b then (a, b) else (b, a)

/-- the six vertices going round in the direction of `arr`, starting with the vertex between
`arr[0]` and `arr[1]` -/
def forward (arr : List Nat) : List (Nat × Nat) :=
  (List.range 6).map fun k => sortPair (arr.getD k 0) (arr.getD ((k + 1) % 6) 0)

/-- … and in the other direction, starting with the vertex between `arr[0]` and `arr[5]` -/
def backward (arr : List Nat) : List (Nat × Nat) :=
  (List.range 6).map fun k => sortPair (arr.getD ((6 - k) % 6) 0) (arr.getD ((11 - k) % 6) 0)

/-- all ways of going round a hexagon whose opposite sides are labelled (0,1), (2,3), (4,5), starting
from the side labelled `first` (`first` = 0 or 2) -/
def arrangements (first : Nat) : List (List Nat) :=
  let opp (s : Nat) : Nat := if s % 2 == 0 then s + 1 else s - 1
  let others := (List.range 6).filter fun s => s != first && s != opp first
  others.flatMap fun x =>
    (others.filter fun y => y != x && y != opp x).map fun y => [first, x, y, opp first, opp x, opp y]

section
variable {α : Type} [Add α] [Sub α] [Mul α] [Div α] [Neg α] [OfNat α 0] [OfNat α 1]

/-- `VectUtils.projectPointOnPlane(point, (pl_pt, normal), direction)` -/
def projectPointOnPlane (point plPt normal dir : V3 α) : V3 α :=
  point.add (V3.smul ((plPt.sub point).dot normal / dir.dot normal) dir)

/-- `hexLatticeBaseVectors`, third vector (eight planes): the first vertex projected along the prism axis on the
seventh-listed plane, minus its projection on the eighth-listed one -/
def hexAxialVector (v p7 n7 p8 n8 axis : V3 α) : V3 α :=
  (projectPointOnPlane v p7 n7 axis).sub (projectPointOnPlane v p8 n8 axis)
end

end T4V
