import T4V.Model.Tree
/-!
# Layer B model, part 2: from geometry trees to TRIPOLI-4 volumes
(mirrors `CellConversion.pot_flag / pot_expand_surfs / pot_optimise / pot_to_t4_cell /
convert_surface / convert_cellref / pot_convert`, `TreeFunctions.largestPureIntersectionNode`
and the conversion loop of `construct_volume_t4`).  Import-free.
-/
namespace T4V

/-- flagged / expanded tree (`[id, op, args…]`); leaves are TRIPOLI-4 surface literals (signed
ints), MCNP surfaces not yet expanded, or cell references -/
inductive FTree where
  | lit (s : Int)
  | msurf (n : Int) (sub : Option Nat)
  | cref (c : Nat)
  | node (id : Nat) (op : Op) (args : List FTree)
deriving Repr, Inhabited

def FTree.isSurface : FTree → Bool
  | .lit _ => true
  | .msurf .. => true
  | _ => false

def FTree.isCref : FTree → Bool
  | .cref _ => true
  | _ => false

mutual
/-- `pot_flag`: children are numbered before their parent; one counter (`new_cell_key`) -/
def potFlag : Geom → Nat → FTree × Nat
  | .surf n sub, k => (.msurf n sub, k)
  | .cref c, k => (.cref c, k)
  | .compl c, k => (.cref c, k)        -- unreachable after pot_complement; kept total
  | .node op args, k =>
      let r := potFlagList args k
      (.node (r.2 + 1) op r.1, r.2 + 1)
def potFlagList : List Geom → Nat → List FTree × Nat
  | [], k => ([], k)
  | g :: gs, k =>
      let r1 := potFlag g k
      let r2 := potFlagList gs r1.2
      (r1.1 :: r2.1, r2.2)
end

abbrev Matching := List (Nat × List Int)

def Matching.get? (m : Matching) (n : Nat) : Option (List Int) := (m.find? (·.1 == n)).map (·.2)

mutual
/-- `pot_expand_surfs`: MCNP surface → its (signed) TRIPOLI-4 surfaces; `-b` ↦ intersection of the
inward sides, `+b` ↦ union of the outward sides, `b.k` ↦ the k-th member -/
def potExpand (m : Matching) : FTree → Nat → Except Err (FTree × Nat)
  | .lit s, k => .ok (.lit s, k)
  | .cref c, k => .ok (.cref c, k)
  | .msurf n sub, k =>
      match m.get? n.natAbs with
      | none => .error (.noSurf n.natAbs)
      | some ids =>
        match sub with
        | some j =>
            if j > ids.length then .error (.badFacet n j ids.length) else
            -- Python: t4_ids[sub - 1]  (sub = 0 wraps around to the last element)
            let s := if j == 0 then ids.getLast?.getD 0 else ids.getD (j - 1) 0
            .ok (.lit (if n > 0 then s else -s), k)
        | none =>
          match ids with
          | [s] => .ok (.lit (if n > 0 then s else -s), k)
          | _ =>
            if n < 0 then .ok (.node (k + 1) .inter (ids.map fun s => .lit (-s)), k + 1)
            else .ok (.node (k + 1) .union (ids.map .lit), k + 1)
  | .node id op args, k => do
      let r ← potExpandList m args k
      .ok (.node id op r.1, r.2)
def potExpandList (m : Matching) : List FTree → Nat → Except Err (List FTree × Nat)
  | [], k => .ok ([], k)
  | t :: ts, k => do
      let r1 ← potExpand m t k
      let r2 ← potExpandList m ts r1.2
      .ok (r1.1 :: r2.1, r2.2)
end

def FTree.isInter : FTree → Bool
  | .node _ .inter _ => true
  | _ => false
def FTree.isUnion : FTree → Bool
  | .node _ .union _ => true
  | _ => false
def FTree.args : FTree → List FTree
  | .node _ _ a => a
  | _ => []

/-- positive / negative surface literals among the direct children -/
def litsPos (ts : List FTree) : List Nat :=
  ts.filterMap fun t => match t with | .lit s => if s > 0 then some s.natAbs else none | _ => none
def litsNeg (ts : List FTree) : List Nat :=
  ts.filterMap fun t => match t with | .lit s => if s < 0 then some s.natAbs else none | _ => none

/-- splice same-operator children (one level: children are already optimised) -/
def flattenArgs (op : Op) : List FTree → List FTree
  | [] => []
  | t :: ts =>
      (match t with
       | .node _ op' a => if op' = op then a else [t]
       | _ => [t]) ++ flattenArgs op ts

mutual
/-- `pot_optimise`: `none` = patently empty.  Unions drop empty children; intersections die with
an empty child or when one surface occurs with both signs. -/
def potOptimise : FTree → Option FTree
  | .lit s => some (.lit s)
  | .msurf n sub => some (.msurf n sub)
  | .cref c => some (.cref c)
  | .node nid op args =>
      let rs := potOptimiseList args
      if op = .inter && rs.any Option.isNone then none else
      let kept := rs.filterMap id
      let flat := flattenArgs op kept
      if op = .union then some (.node nid op flat) else
      if (litsPos flat).any (fun s => (litsNeg flat).contains s) then none
      else some (.node nid op flat)
def potOptimiseList : List FTree → List (Option FTree)
  | [] => []
  | t :: ts => potOptimise t :: potOptimiseList ts
end

/-! ## Volumes -/

structure Vol where
  pluses : List Nat
  minuses : List Nat
  ops : Option (Op × List Nat) := none
  origin : List (Nat × Nat) := []
  fictive : Bool := true
deriving Repr, Inhabited, BEq

/-- insertion-ordered dictionary; assigning an existing key keeps its position -/
def dictSet {β} (d : List (Nat × β)) (k : Nat) (v : β) : List (Nat × β) :=
  if d.any (·.1 == k) then d.map fun p => if p.1 == k then (k, v) else p
  else d ++ [(k, v)]

def dictGet? {β} (d : List (Nat × β)) (k : Nat) : Option β := (d.find? (·.1 == k)).map (·.2)

/-- `conv_equa`: first occurrence of each signed literal; zero is ignored -/
def convEqua (ss : List Int) : List Nat × List Nat :=
  let ded := ss.eraseDups
  (ded.filterMap fun s => if s > 0 then some s.natAbs else none,
   ded.filterMap fun s => if s < 0 then some s.natAbs else none)

structure CState where
  next : Nat                              -- new_cell_key
  vols : List (Nat × Vol) := []           -- dic_vol_t4
  surfCache : List (Int × Nat) := []      -- convert_surface_cache
  cellCache : List (Nat × Nat) := []      -- convert_cellref_cache (entries that are not None)
deriving Repr, Inhabited

structure CellIn where
  id : Nat
  geom : Geom
  origin : List (Nat × Nat) := []
deriving Repr, Inhabited

structure CEnv where
  cells : List CellIn
  matching : Matching
  unionIds : Nat × Nat
deriving Repr, Inhabited

def CEnv.cell? (e : CEnv) (c : Nat) : Option CellIn := e.cells.find? (·.id == c)

/-- `largestPureIntersectionNode`: index of the largest pure-surface intersection (a bare surface
counts with length 1 and only when nothing was found before; a node counts with `len(node)`,
i.e. number of surfaces + 2) -/
def largestPure (args : List FTree) : Option Nat :=
  let rec go : List FTree → Nat → Nat → Option Nat → Option Nat
    | [], _, _, best => best
    | t :: ts, i, len, best =>
        match t with
        | .lit _ => if len < 1 then go ts (i + 1) 1 (some i) else go ts (i + 1) len best
        | .msurf .. => if len < 1 then go ts (i + 1) 1 (some i) else go ts (i + 1) len best
        | .node _ .inter a =>
            if a.all FTree.isSurface && a.length + 2 > len then go ts (i + 1) (a.length + 2) (some i)
            else go ts (i + 1) len best
        | _ => go ts (i + 1) len best
  go args 0 0 none

def litOf : FTree → Option Int
  | .lit s => some s
  | _ => none

/-- the `surfs`, `cellrefs`, `nodes` partition of a node's arguments in `pot_to_t4_cell` -/
def crefsOf (args : List FTree) : List Nat := args.filterMap fun a => match a with | .cref c => some c | _ => none
def nodesOf (args : List FTree) : List FTree := args.filter fun a => !a.isSurface && !a.isCref
def nonCrefs (args : List FTree) : List FTree := args.filter fun a => !a.isCref

/-- `convert_surface` -/
def convertSurface (s : Int) (origin : List (Nat × Nat)) (st : CState) : Nat × CState :=
  match (st.surfCache.find? (·.1 == s)).map (·.2) with
  | some id => (id, st)
  | none =>
    let id := st.next + 1
    let (pl, mi) := convEqua [s]
    let v : Vol := { pluses := pl, minuses := mi, origin := origin }
    (id, { st with next := id, vols := dictSet st.vols id v, surfCache := st.surfCache ++ [(s, id)] })

mutual
/-- `pot_convert` of the cell `c` -/
def potConvert (env : CEnv) : Nat → CellIn → CState → Except Err (Option Nat × CState)
  | 0, _, _ => .error .outOfFuel
  | fuel + 1, c, st => do
      let (t, k1) := potFlag c.geom st.next
      let (t2, k2) ← potExpand env.matching t k1
      match potOptimise t2 with
      | none => .ok (none, { st with next := k2 })
      | some t3 => toT4 env fuel t3 c.origin { st with next := k2 }

/-- `convert_cellref`: cached unless the cached value is `None` -/
def convertCellref (env : CEnv) : Nat → Nat → CState → Except Err (Option Nat × CState)
  | 0, _, _ => .error .outOfFuel
  | fuel + 1, c, st =>
      match (st.cellCache.find? (·.1 == c)).map (·.2) with
      | some id => .ok (some id, st)
      | none =>
        match env.cell? c with
        | none => .error (.noCell c)
        | some cell => do
            let (r, st') ← potConvert env fuel cell st
            match r with
            | some id => .ok (some id, { st' with cellCache := st'.cellCache ++ [(c, id)] })
            | none => .ok (none, st')

/-- `pot_to_t4_cell` -/
def toT4 (env : CEnv) : Nat → FTree → List (Nat × Nat) → CState → Except Err (Option Nat × CState)
  | 0, _, _, _ => .error .outOfFuel
  | fuel + 1, t, origin, st =>
    match t with
    | .lit s => let (id, st') := convertSurface s origin st; .ok (some id, st')
    | .msurf .. => .error (.other "unexpanded surface")
    | .cref c => convertCellref env fuel c st
    | .node pid op args =>
      let surfs := args.filterMap litOf
      let crefs := crefsOf args
      let nodes := nodesOf args
      match op with
      | .inter => do
          let (pl, mi) := convEqua surfs
          let (ids1, st1) ← toT4List env fuel nodes origin st
          let (ids2, st2) ← cellrefList env fuel crefs st1
          let ids := ids1 ++ ids2
          if ids.any Option.isNone then .ok (none, st2) else
          let ids := ids.filterMap id
          let ops := if ids.isEmpty then none else some (Op.inter, ids)
          let v : Vol := { pluses := pl, minuses := mi, ops := ops, origin := origin }
          .ok (some pid, { st2 with vols := dictSet st2.vols pid v })
      | .union =>
          match largestPure args with
          | none => do
              let (ids1, st1) ← toT4List env fuel (nonCrefs args) origin st
              let (ids2, st2) ← cellrefList env fuel crefs st1
              let ids := (ids1 ++ ids2).filterMap id
              if ids.isEmpty then .ok (none, st2) else
              let (pl, mi) := convEqua [(env.unionIds.1 : Int), -(env.unionIds.2 : Int)]
              let v : Vol := { pluses := pl, minuses := mi, ops := some (Op.union, ids), origin := origin }
              .ok (some pid, { st2 with vols := dictSet st2.vols pid v })
          | some i => do
              let main := args.getD i (.lit 0)
              let rest := args.eraseIdx i
              let (mid, st0) ← toT4 env fuel main origin st
              match mid with
              | none => .error (.other "main part of a union is empty")
              | some mid =>
                let mv := (dictGet? st0.vols mid).getD { pluses := [], minuses := [] }
                let (ids1, st1) ← toT4List env fuel rest origin st0
                let (ids2, st2) ← cellrefList env fuel crefs st1
                let ids := (ids1 ++ ids2).filterMap id
                let ops := if ids.isEmpty then none else some (Op.union, ids)
                let v : Vol := { pluses := mv.pluses, minuses := mv.minuses, ops := ops, origin := origin }
                .ok (some pid, { st2 with vols := dictSet st2.vols pid v })

def toT4List (env : CEnv) : Nat → List FTree → List (Nat × Nat) → CState → Except Err (List (Option Nat) × CState)
  | 0, _, _, _ => .error .outOfFuel
  | _ + 1, [], _, st => .ok ([], st)
  | fuel + 1, t :: ts, origin, st => do
      let (r, st1) ← toT4 env fuel t origin st
      let (rs, st2) ← toT4List env fuel ts origin st1
      .ok (r :: rs, st2)

def cellrefList (env : CEnv) : Nat → List Nat → CState → Except Err (List (Option Nat) × CState)
  | 0, _, _ => .error .outOfFuel
  | _ + 1, [], st => .ok ([], st)
  | fuel + 1, c :: cs, st => do
      let (r, st1) ← convertCellref env fuel c st
      let (rs, st2) ← cellrefList env fuel cs st1
      .ok (r :: rs, st2)
end

/-- conversion loop of `construct_volume_t4`: every live level-0 cell, in dictionary order;
the converted volume is copied under the MCNP cell number and made non-virtual -/
def convertAll (env : CEnv) (fuel : Nat) : List Nat → CState → Except Err CState
  | [], st => .ok st
  | c :: cs, st =>
      match env.cell? c with
      | none => .error (.noCell c)
      | some cell => do
          let (r, st1) ← potConvert env fuel cell st
          match r with
          | none => convertAll env fuel cs st1
          | some j =>
              match dictGet? st1.vols j with
              | none => .error (.other "converted volume missing")
              | some v => convertAll env fuel cs { st1 with vols := dictSet st1.vols c { v with fictive := false } }

end T4V
