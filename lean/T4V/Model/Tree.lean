/-!
# Layer B model, part 1: geometry trees, De Morgan inverse, complement elimination
(mirrors `MIP/geom/semantics.py` `GeomExpression.inverse`, `Surface.inverse` and
`CellConversion.pot_complement`).  Import-free.
-/
namespace T4V

inductive Op | inter | union
deriving DecidableEq, Repr, Inhabited

def Op.dual : Op → Op
  | .inter => .union
  | .union => .inter

/-- a cell's geometry as the converter holds it (`cell.geometry`) -/
inductive Geom where
  | surf (n : Int) (sub : Option Nat)   -- `Surface(n, sub)`, `n` signed
  | cref (c : Nat)                       -- `CellRef(c)` (created by `pot_fill`)
  | compl (c : Nat)                      -- `('^', Cell(c))`
  | node (op : Op) (args : List Geom)    -- `(op, a, b)` / `[op, a, b, …]`
deriving Repr, Inhabited

inductive Err
  | outOfFuel                 -- cyclic references: the Python code recurses without bound
  | noCell (c : Nat)          -- KeyError on the cell dictionary
  | noSurf (n : Nat)          -- KeyError on the surface dictionary / matching
  | badFacet (n : Int) (k : Nat) (have_ : Nat)   -- CellConversionError (facet index too large)
  | notInvertible             -- AttributeError in `.inverse()` (CellRef / '^' below a complement)
  | emptyLattice              -- assertion in the complement-of-a-lattice branch
  | other (msg : String)
deriving Repr, Inhabited

mutual
/-- `GeomExpression.inverse` / `Surface.inverse`.  `'^'` nodes and `CellRef`s have no inverse in
the Python code (AttributeError); the model returns `none` there. -/
def Geom.inverse : Geom → Option Geom
  | .surf n sub => some (.surf (-n) sub)
  | .cref _ => none
  | .compl _ => none
  | .node op args => (Geom.inverseList args).map (.node op.dual)
def Geom.inverseList : List Geom → Option (List Geom)
  | [] => some []
  | g :: gs => do
      let g' ← Geom.inverse g
      let gs' ← Geom.inverseList gs
      pure (g' :: gs')
end

/-- surfaces in order of appearance (`extract_surfaces_list`; `'^'` nodes are not entered) -/
def Geom.surfaces : Geom → List (Int × Option Nat)
  | .surf n sub => [(n, sub)]
  | .cref _ => []
  | .compl _ => []
  | .node _ args => surfacesList args
where surfacesList : List Geom → List (Int × Option Nat)
  | [] => []
  | g :: gs => g.surfaces ++ surfacesList gs

structure CellGeom where
  id : Nat
  geom : Geom
  isLattice : Bool := false
deriving Repr, Inhabited

def findCell (cells : List CellGeom) (c : Nat) : Option CellGeom := cells.find? (·.id == c)

mutual
/-- `CellConversion.pot_complement`: every `#c` is replaced by the De Morgan inverse of cell `c`'s
(recursively complement-free) geometry; the complement of a lattice cell becomes a patently empty
intersection.  The Python recursion has no cycle check; the model uses fuel. -/
def potComplement (cells : List CellGeom) : Nat → Geom → Except Err Geom
  | 0, _ => .error .outOfFuel
  | fuel + 1, g =>
    match g with
    | .surf n sub => .ok (.surf n sub)
    | .cref c => .ok (.cref c)
    | .compl c =>
        match findCell cells c with
        | none => .error (.noCell c)
        | some cell =>
          if cell.isLattice then
            match cell.geom.surfaces with
            | [] => .error .emptyLattice
            | (n, sub) :: _ => .ok (.node .inter [.surf n sub, .surf (-n) sub])
          else do
            let g' ← potComplement cells fuel cell.geom
            match g'.inverse with
            | some r => .ok r
            | none => .error .notInvertible
    | .node op args => do
        let args' ← potComplementList cells fuel args
        .ok (.node op args')
def potComplementList (cells : List CellGeom) : Nat → List Geom → Except Err (List Geom)
  | 0, _ => .error .outOfFuel
  | _ + 1, [] => .ok []
  | fuel + 1, g :: gs => do
      let g' ← potComplement cells (fuel + 1) g
      let gs' ← potComplementList cells fuel gs
      .ok (g' :: gs')
end

/-! ## Semantics of geometry trees -/

/-- valuation: positive sense of surface `n` (facet `k`) at the point under study -/
abbrev SurfVal := Nat → Option Nat → Bool

def litSurf (σ : SurfVal) (n : Int) (sub : Option Nat) : Bool :=
  if n > 0 then σ n.natAbs sub else !σ n.natAbs sub

mutual
/-- Boolean value of a tree; `cellVal` gives the truth of referenced cells -/
def Geom.eval (σ : SurfVal) (cellVal : Nat → Bool) : Geom → Bool
  | .surf n sub => litSurf σ n sub
  | .cref c => cellVal c
  | .compl c => !cellVal c
  | .node .inter args => Geom.evalAll σ cellVal args
  | .node .union args => Geom.evalAny σ cellVal args
def Geom.evalAll (σ : SurfVal) (cellVal : Nat → Bool) : List Geom → Bool
  | [] => true
  | g :: gs => Geom.eval σ cellVal g && Geom.evalAll σ cellVal gs
def Geom.evalAny (σ : SurfVal) (cellVal : Nat → Bool) : List Geom → Bool
  | [] => false
  | g :: gs => Geom.eval σ cellVal g || Geom.evalAny σ cellVal gs
end

mutual
def Geom.complFree : Geom → Bool
  | .surf .. => true
  | .cref _ => true
  | .compl _ => false
  | .node _ args => Geom.complFreeList args
def Geom.complFreeList : List Geom → Bool
  | [] => true
  | g :: gs => g.complFree && Geom.complFreeList gs
end

mutual
def Geom.pure : Geom → Bool      -- surfaces and operators only
  | .surf .. => true
  | .cref _ => false
  | .compl _ => false
  | .node _ args => Geom.pureList args
def Geom.pureList : List Geom → Bool
  | [] => true
  | g :: gs => g.pure && Geom.pureList gs
end

/-- region of cell `c` in a deck of cells whose geometry may use `#c'`: MCNP's meaning of the
complement operator (fuel-indexed; `none` = cyclic or dangling reference) -/
def cellRegion (cells : List CellGeom) (σ : SurfVal) : Nat → Nat → Option Bool
  | 0, _ => none
  | fuel + 1, c =>
    match findCell cells c with
    | none => none
    | some cell =>
      if cell.isLattice then none else
      regionOf cells σ fuel cell.geom
where
  regionOf (cells : List CellGeom) (σ : SurfVal) (fuel : Nat) : Geom → Option Bool
    | .surf n sub => some (litSurf σ n sub)
    | .cref _ => none
    | .compl c => (cellRegion cells σ fuel c).map (!·)
    | .node .inter args => regionAll cells σ fuel args
    | .node .union args => regionAny cells σ fuel args
  regionAll (cells : List CellGeom) (σ : SurfVal) (fuel : Nat) : List Geom → Option Bool
    | [] => some true
    | g :: gs => do
        let a ← regionOf cells σ fuel g
        let b ← regionAll cells σ fuel gs
        pure (a && b)
  regionAny (cells : List CellGeom) (σ : SurfVal) (fuel : Nat) : List Geom → Option Bool
    | [] => some false
    | g :: gs => do
        let a ← regionOf cells σ fuel g
        let b ← regionAny cells σ fuel gs
        pure (a || b)

end T4V
