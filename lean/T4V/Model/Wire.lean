import T4V.Model.Inline
import T4V.Model.Lattice
import T4V.Sexp
import T4V.Model.Post
import T4V.Model.PotTransform
import T4V.Model.GeomComp
import T4V.Model.Composition
/-! Wire encoding of Layer-B model inputs/outputs (S-expressions). -/
namespace T4V

partial def decodeGeom : Sexp → Option Geom
  | .list [.atom "s", .atom n] => do pure (.surf (← n.toInt?) none)
  | .list [.atom "f", .atom n, .atom k] => do pure (.surf (← n.toInt?) (some (← k.toNat?)))
  | .list [.atom "r", .atom c] => do pure (.cref (← c.toNat?))
  | .list [.atom "x", .atom c] => do pure (.compl (← c.toNat?))
  | .list (.atom "i" :: args) => do pure (.node .inter (← args.mapM decodeGeom))
  | .list (.atom "u" :: args) => do pure (.node .union (← args.mapM decodeGeom))
  | _ => none

partial def encodeGeom : Geom → String
  | .surf n none => s!"(s {n})"
  | .surf n (some k) => s!"(f {n} {k})"
  | .cref c => s!"(r {c})"
  | .compl c => s!"(x {c})"
  | .node .inter args => "(i " ++ " ".intercalate (args.map encodeGeom) ++ ")"
  | .node .union args => "(u " ++ " ".intercalate (args.map encodeGeom) ++ ")"

def decodePairs (s : Sexp) : Option (List (Nat × Nat)) :=
  s.args.mapM fun x => match x with
    | .list [.atom a, .atom b] => do pure ((← a.toNat?), (← b.toNat?))
    | _ => none

def natsOf (l : List Sexp) : Option (List Nat) := l.mapM fun a => a.atom? >>= String.toNat?
def intsOf (l : List Sexp) : Option (List Int) := l.mapM fun a => a.atom? >>= String.toInt?

def encodeVol (k : Nat) (v : Vol) : String :=
  let ops := match v.ops with
    | none => ""
    | some (.union, ids) => " (op U " ++ " ".intercalate (ids.map toString) ++ ")"
    | some (.inter, ids) => " (op I " ++ " ".intercalate (ids.map toString) ++ ")"
  let o := " (o " ++ " ".intercalate (v.origin.map fun (a, b) => s!"({a} {b})") ++ ")"
  s!"(vol {k} (p " ++ " ".intercalate (v.pluses.map toString) ++ ") (m " ++
    " ".intercalate (v.minuses.map toString) ++ ")" ++ ops ++ o ++ (if v.fictive then " F" else " R") ++ ")"

def decodeVol (s : Sexp) : Option (Nat × Vol) := do
  match s with
  | .list (.atom "vol" :: .atom k :: rest) =>
      let r : Sexp := .list rest
      let pl ← (r.field? "p").bind fun x => natsOf x.args
      let mi ← (r.field? "m").bind fun x => natsOf x.args
      let ops ← match r.field? "op" with
        | none => some none
        | some (.list (_ :: .atom kind :: ids)) => do
            let xs ← natsOf ids
            pure (some ((if kind == "U" then Op.union else Op.inter), xs))
        | _ => none
      let origin ← match r.field? "o" with
        | none => some []
        | some o => decodePairs o
      let fict := rest.any fun x => x == Sexp.atom "F"
      pure ((← k.toNat?), { pluses := pl, minuses := mi, ops, origin, fictive := fict })
  | _ => none

def errName : Err → String
  | .outOfFuel => "outOfFuel"
  | .noCell c => s!"noCell:{c}"
  | .noSurf n => s!"noSurf:{n}"
  | .badFacet .. => "badFacet"
  | .notInvertible => "notInvertible"
  | .emptyLattice => "emptyLattice"
  | .other m => s!"other:{m}"

/-- `(compile (next N) (union A B) (matching (n s…)…) (cells (cell id (o (a b)…) geom)…) (keys k…))` -/
def runCompile (s : Sexp) : String :=
  let r : Option (CEnv × Nat × List Nat) := do
    let next ← (s.field? "next").bind fun x => x.args.head? >>= Sexp.atom? >>= String.toNat?
    let un ← (s.field? "union").bind fun x => natsOf x.args
    let unionIds ← match un with | [a, b] => some (a, b) | _ => none
    let matching ← (s.field? "matching").bind fun m => m.args.mapM fun e => match e with
      | .list (.atom n :: ids) => do pure ((← n.toNat?), (← intsOf ids))
      | _ => none
    let cells ← (s.field? "cells").bind fun cs => cs.args.mapM fun c => match c with
      | .list [.atom "cell", .atom id, o, g] => do
          pure ({ id := ← id.toNat?, geom := ← decodeGeom g, origin := ← decodePairs o } : CellIn)
      | _ => none
    let keys ← (s.field? "keys").bind fun k => natsOf k.args
    pure ({ cells, matching, unionIds }, next, keys)
  match r with
  | none => "err bad-request"
  | some (env, next, keys) =>
    -- fuel: every nested call strictly consumes; depth ≤ (total tree size + cells) is ample
    let fuel := 10000
    match convertAll env fuel keys { next } with
    | .error e => "ok error " ++ errName e
    | .ok st => s!"ok next={st.next} " ++ " ".intercalate (st.vols.map fun (k, v) => encodeVol k v)

/-- `(post (dedup 0|1) (union A B) (surfs (id key)…) (vols (vol …)…))` -/
def runPost (s : Sexp) : String :=
  let r : Option (Bool × (Nat × Nat) × List (Nat × String) × List (Nat × Vol)) := do
    let dd ← (s.field? "dedup").bind fun x => x.args.head? >>= Sexp.atom?
    let un ← (s.field? "union").bind fun x => natsOf x.args
    let unionIds ← match un with | [a, b] => some (a, b) | _ => none
    let surfs ← (s.field? "surfs").bind fun m => m.args.mapM fun e => match e with
      | .list [.atom n, .atom key] => do pure ((← n.toNat?), key)
      | _ => none
    let vols ← (s.field? "vols").bind fun m => m.args.mapM decodeVol
    pure (dd == "1", unionIds, surfs, vols)
  match r with
  | none => "err bad-request"
  | some (dd, unionIds, surfs, vols) =>
    let (kept, vs) := postProcess dd surfs unionIds vols
    "ok (kept " ++ " ".intercalate (kept.map toString) ++ ") " ++ " ".intercalate (vs.map fun (k, v) => encodeVol k v)

/-- `(complement (cells (cell id lat geom)…))` → every cell's geometry after pot_complement, in order
(in place: later cells see earlier results, as in the Python loop) -/
def runComplement (s : Sexp) : String :=
  let r : Option (List CellGeom) := (s.field? "cells").bind fun cs => cs.args.mapM fun c => match c with
      | .list [.atom "cell", .atom id, .atom lat, g] => do
          pure ({ id := ← id.toNat?, geom := ← decodeGeom g, isLattice := lat == "1" } : CellGeom)
      | _ => none
  match r with
  | none => "err bad-request"
  | some cells =>
    let fuel := 10000
    let rec go : List Nat → List CellGeom → List String → String
      | [], _, acc => "ok " ++ " ".intercalate acc.reverse
      | k :: ks, cs, acc =>
          match findCell cs k with
          | none => "ok error noCell"
          | some c =>
            match potComplement cs fuel c.geom with
            | .error e => "ok error " ++ errName e
            | .ok g' =>
              go ks (cs.map fun x => if x.id == k then { x with geom := g' } else x) (s!"(cell {k} {encodeGeom g'})" :: acc)
    go (cells.map (·.id)) cells []

/-- `(pt (ns N) (nc N) (cells (cell id geom)…) (cache (e c tr k)…) (call cell c tr uc) | (call tree tr geom))` →
the result of `cell_transform` / `pot_transform`, the two counters, and what the call created: surfaces
`(s new source facet|- tr)`, cells `(cell k geom)`, cache entries `(e c tr k)` -/
def runPotTransform (s : Sexp) : String :=
  let num (name : String) : Option Nat := (s.field? name).bind fun x => match x.args with | [.atom a] => a.toNat? | _ => none
  let cells : Option (List (Nat × Geom)) := (s.field? "cells").bind fun cs => cs.args.mapM fun c => match c with
      | .list [.atom "cell", .atom id, g] => do pure (← id.toNat?, ← decodeGeom g)
      | _ => none
  let cache : Option (List ((Nat × Nat) × Nat)) := (s.field? "cache").bind fun cs => cs.args.mapM fun c => match c with
      | .list [.atom "e", .atom c, .atom t, .atom k] => do pure ((← c.toNat?, ← t.toNat?), ← k.toNat?)
      | _ => none
  match num "ns", num "nc", cells, cache, s.field? "call" with
  | some ns, some nc, some cells, some cache, some call =>
    let st : PTSt := { nextSurf := ns, nextCell := nc, cells, cache }
    let fuel := 100000
    let show_ (res : String) (st' : PTSt) : String :=
      let surfs := st'.newSurfs.map fun (k, n, sub, t) =>
        s!"(s {k} {n} {match sub with | some f => toString f | none => "-"} {t})"
      let newCells := (st'.cells.drop cells.length).map fun (k, g) => s!"(cell {k} {encodeGeom g})"
      let newCache := (st'.cache.drop cache.length).map fun ((c, t), k) => s!"(e {c} {t} {k})"
      s!"ok (res {res}) (ns {st'.nextSurf}) (nc {st'.nextCell}) (surfs {" ".intercalate surfs}) (cells {" ".intercalate newCells}) (cache {" ".intercalate newCache})"
    match call.args with
    | [.atom "cell", .atom c, .atom t, .atom uc] =>
      (match c.toNat?, t.toNat? with
       | some c, some t =>
         (match cellTransform t (uc == "1") fuel c st with
          | .ok (k, st') => show_ (toString k) st'
          | .error e => "ok error " ++ errName e)
       | _, _ => "err bad-request")
    | [.atom "tree", .atom t, g] =>
      (match t.toNat?, decodeGeom g with
       | some t, some g =>
         (match potTransform t fuel g st with
          | .ok (g', st') => show_ (encodeGeom g') st'
          | .error e => "ok error " ++ errName e)
       | _, _ => "err bad-request")
    | _ => "err bad-request"
  | _, _, _, _, _ => "err bad-request"

/-- `(gc (vols (v id F|R (a b)…)…) (cells (c id mathex rhohex|-)…))` → `ok (g namehex count id…)…` in block order -/
def runGeomComp (s : Sexp) : String :=
  let vols : Option (List GVol) := (s.field? "vols").bind fun vs => vs.args.mapM fun v => match v with
      | .list (.atom "v" :: .atom id :: .atom f :: o) => do
          pure ({ id := ← id.toNat?, fictive := f == "F", origin := ← decodePairs (.list (.atom "o" :: o)) } : GVol)
      | _ => none
  let cells : Option (List (Nat × GCell)) := (s.field? "cells").bind fun cs => cs.args.mapM fun c => match c with
      | .list [.atom "c", .atom id, .atom m, .atom r] => do
          let rho ← if r == "-" then pure none else (unhex r).map some
          pure (← id.toNat?, ({ mat := ← unhex m, rho } : GCell))
      | _ => none
  match vols, cells with
  | some vols, some cells =>
    match geomComp (fun k => (cells.find? (·.1 == k)).map (·.2)) vols with
    | none => "ok error"
    | some gs => "ok " ++ " ".intercalate (gs.map fun (n, ids) =>
        s!"(g {hex n} {ids.length} {" ".intercalate (ids.map toString)})")
  | _, _ => "err bad-request"

/-- `(comp (cards (m K tok…)…) (cells (c live mat dens)…))` (tokens and literals in hex) → the lines of the COMPOSITION
block as words, or the class of the exception -/
def runCompModel (s : Sexp) : String :=
  let cards : Option (List (Nat × List (List Char))) := (s.field? "cards").bind fun cs => cs.args.mapM fun c => match c with
      | .list (.atom "m" :: .atom k :: toks) => do
          pure (← k.toNat?, ← toks.mapM fun t => t.atom? >>= unhex |>.map String.toList)
      | _ => none
  let cells : Option (List CM.CCell) := (s.field? "cells").bind fun cs => cs.args.mapM fun c => match c with
      | .list [.atom "c", .atom l, .atom m, .atom d] => do
          pure ({ live := l == "1", mat := ← m.toNat?, density := (← unhex d).toList } : CM.CCell)
      | _ => none
  match cards, cells with
  | some cards, some cells =>
    match CM.run cards cells with
    | .error e => "ok error " ++ e.name
    | .ok ls => "ok " ++ " ".intercalate (ls.map fun l => if l.isEmpty then "-" else hex l)
  | _, _ => "err bad-request"

/-- `(inline (max X) (cells (cell id univ geom)…))` → every cell's geometry after `inline_cells` -/
def runInline (s : Sexp) : String :=
  let mx : Option Float := (s.field? "max").bind fun m => match m.args with | [.atom x] => parseFloat? x | _ => none
  let r : Option (List (Nat × Nat × Geom)) := (s.field? "cells").bind fun cs => cs.args.mapM fun c => match c with
      | .list [.atom "cell", .atom id, .atom u, g] => do pure (← id.toNat?, ← u.toNat?, ← decodeGeom g)
      | _ => none
  match mx, r with
  | some m, some cells =>
      match inlineAll cells m with
      | none => "ok error"
      | some out => "ok " ++ " ".intercalate (out.map fun (k, g) => s!"(cell {k} {encodeGeom g})")
  | _, _ => "err bad-request"

/-- `(lat (base (v x y z)…) (bounds (r lo hi)…) (spec u…) (univ n) [(filltr x…)] [(trcl x…)])` → the cells
`develop_lattice` creates: index, translation, fill universe (`-` = own universe), FILL transformation -/
def runLattice (s : Sexp) : String :=
  let floats (l : List Sexp) : Option (List Float) := l.mapM fun a => a.atom?.bind parseFloat?
  let r : Option (List (V3 Float) × List (Int × Int) × List Nat × Nat × Option (List Float) × Option (List Float)) := do
    let base ← (← s.field? "base").args.mapM fun v => do
      match ← floats v.args with
      | [x, y, z] => some (⟨x, y, z⟩ : V3 Float)
      | _ => none
    let bounds ← (← s.field? "bounds").args.mapM fun b =>
      match b.args with
      | [.atom lo, .atom hi] => do pure (← lo.toInt?, ← hi.toInt?)
      | _ => none
    let spec ← (← s.field? "spec").args.mapM fun a => a.atom?.bind String.toNat?
    let univ ← match (← s.field? "univ").args with | [.atom u] => u.toNat? | _ => none
    let filltr ← match s.field? "filltr" with | some f => (floats f.args).map some | none => some none
    let trcl ← match s.field? "trcl" with | some f => (floats f.args).map some | none => some none
    pure (base, bounds, spec, univ, filltr, trcl)
  match r with
  | none => "err bad-request"
  | some (base, bounds, spec, univ, filltr, trcl) =>
    match developLattice base bounds spec univ filltr trcl with
    | .error .dims => "ok error dims"
    | .error .nontrivial => "ok error nontrivial"
    | .error .transform => "ok error transform"
    | .ok els => "ok " ++ " ".intercalate (els.map fun e =>
        ",".intercalate (e.index.map toString) ++ ":" ++ s!"{e.transl.x.toBits},{e.transl.y.toBits},{e.transl.z.toBits}:" ++
        (match e.fill with | some u => toString u | none => "-") ++ ":" ++ ",".intercalate (e.filltr.map fun v => toString v.toBits))

end T4V
