/-!
# Writers (model): `VolumeT4.__str__` and the surface order of `writeT4Geometry`

Sets are modelled as lists in *some* enumeration order (Python's `set` iteration order depends on the
insertion history and, for strings, on the hash seed); the writers sort before printing.
-/
namespace T4V

def natLe (a b : Nat) : Bool := decide (a ≤ b)

/-- the words of `VolumeT4.__str__` -/
def volWords (pluses minuses : List Nat) (ops : Option (String × List Nat)) (fictive : Bool) : List String :=
  ["EQUA"]
    ++ (if pluses.isEmpty then [] else ["PLUS", toString pluses.length] ++ (pluses.mergeSort natLe).map toString)
    ++ (if minuses.isEmpty then [] else ["MINUS", toString minuses.length] ++ (minuses.mergeSort natLe).map toString)
    ++ (match ops with | some (op, ids) => [op, toString ids.length] ++ ids.map toString | none => [])
    ++ (if fictive then ["FICTIVE"] else [])

/-- `VolumeT4.__str__` -/
def volLine (pluses minuses : List Nat) (ops : Option (String × List Nat)) (fictive : Bool) : String :=
  " ".intercalate (volWords pluses minuses ops fictive)

/-- the order in which `writeT4Geometry` writes the surfaces in use: `sorted(surf_used)` -/
def surfOrder (used : List Nat) : List Nat := used.mergeSort natLe

end T4V
