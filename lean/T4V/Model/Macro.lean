import T4V.Model.Surface
/-!
# Macrobodies (model): `Kernel/Surface/MacroBodies.py` + `to_surfaces_macro` + `SurfaceCollection.join`

`macroParts` = body ↦ facet list `(mnemonic, parameters, side)` in MCNP's facet order; `convertMacro` =
each facet converted like an ordinary card, its side multiplied in.  Modelled: RPP, BOX, SPH, RCC,
RHP/HEX with 15 entries, WED, TRC.  REC, ELL, ARB and the 9-entry RHP go through `transformation_quad`,
`rotate` and the ARB vertex tables and are covered by the spec monitor only.
-/
namespace T4V

section
variable {α : Type} [Add α] [Sub α] [Mul α] [Div α] [Neg α] [OfNat α 0] [OfNat α 1]
  [LT α] [DecidableLT α] [BEq α] [Transc α]

/-- `planeParamsFromNormalAndPoint` -/
def planeNP (n pt : V3 α) : List α := [n.x, n.y, n.z, n.dot pt]

abbrev Part (α : Type) := String × List α × Int

def macroParts (mn : String) (ps : List α) : Option (List (Part α)) :=
  match mn, ps with
  | "rpp", [x0, x1, y0, y1, z0, z1] =>
      some [("p", [1, 0, 0, x1], 1), ("p", [1, 0, 0, x0], -1), ("p", [0, 1, 0, y1], 1), ("p", [0, 1, 0, y0], -1),
            ("p", [0, 0, 1, z1], 1), ("p", [0, 0, 1, z0], -1)]
  | "box", [vx, vy, vz, ax, ay, az, bx, by', bz, cx, cy, cz] =>
      let v : V3 α := ⟨vx, vy, vz⟩; let a : V3 α := ⟨ax, ay, az⟩
      let b : V3 α := ⟨bx, by', bz⟩; let c : V3 α := ⟨cx, cy, cz⟩
      let nab := a.cross b; let nbc := b.cross c; let nca := c.cross a
      let sab : Int := if nab.dot c < 0 then 1 else -1
      let sbc : Int := if nbc.dot a < 0 then 1 else -1
      let sca : Int := if nca.dot b < 0 then 1 else -1
      some [("p", planeNP nbc (v.add a), -sbc), ("p", planeNP nbc v, sbc),
            ("p", planeNP nca (v.add b), -sca), ("p", planeNP nca v, sca),
            ("p", planeNP nab (v.add c), -sab), ("p", planeNP nab v, sab)]
  | "sph", [x, y, z, r] => some [("s", [x, y, z, r], 1)]
  | "rcc", [vx, vy, vz, hx, hy, hz, r] =>
      let v : V3 α := ⟨vx, vy, vz⟩; let h : V3 α := ⟨hx, hy, hz⟩
      some [("c", [vx, vy, vz, r, hx, hy, hz], 1), ("p", planeNP h (v.add h), 1), ("p", planeNP h v, -1)]
  | "rhp", [vx, vy, vz, hx, hy, hz, rx, ry, rz, sx, sy, sz, tx, ty, tz] =>
      let v : V3 α := ⟨vx, vy, vz⟩; let h : V3 α := ⟨hx, hy, hz⟩
      let r : V3 α := ⟨rx, ry, rz⟩; let s : V3 α := ⟨sx, sy, sz⟩; let t : V3 α := ⟨tx, ty, tz⟩
      some [("p", planeNP r (v.add r), 1), ("p", planeNP r (v.sub r), -1),
            ("p", planeNP s (v.add s), 1), ("p", planeNP s (v.sub s), -1),
            ("p", planeNP t (v.add t), 1), ("p", planeNP t (v.sub t), -1),
            ("p", planeNP h (v.add h), 1), ("p", planeNP h v, -1)]
  | "wed", [vx, vy, vz, ax, ay, az, bx, by', bz, hx, hy, hz] =>
      let v : V3 α := ⟨vx, vy, vz⟩; let a : V3 α := ⟨ax, ay, az⟩
      let b : V3 α := ⟨bx, by', bz⟩; let h : V3 α := ⟨hx, hy, hz⟩
      let c := (a.sub b).cross h
      let sc : Int := if (0:α) < a.dot c then 1 else -1
      some [("p", planeNP c (v.add a), sc), ("p", planeNP a (v.add b), -1), ("p", planeNP b (v.add a), -1),
            ("p", planeNP h (v.add h), 1), ("p", planeNP h v, -1)]
  | "trc", [vx, vy, vz, hx, hy, hz, r0, r1] =>
      let v : V3 α := ⟨vx, vy, vz⟩; let h : V3 α := ⟨hx, hy, hz⟩
      let hl := Transc.sqrt h.norm2
      -- `rad0 / (rad0 - rad1)` and `… / mag(height)`: Python raises ZeroDivisionError
      if r0 - r1 == 0 || hl == 0 then none else
      let d := r0 / (r0 - r1)
      let apex := v.add (V3.smul d h)
      let tanA := fabs (r1 - r0) / hl
      let u := V3.smul (1 / hl) h
      some [("k", [apex.x, apex.y, apex.z, tanA, u.x, u.y, u.z], 1), ("p", planeNP h (v.add h), 1),
            ("p", planeNP h v, -1)]
  | _, _ => none

/-- `to_surfaces_macro` + `convert_mcnp_surface`: every facet converted, sides multiplied
(`SurfaceCollection.join`) -/
def convertMacro (e1 e2 : α) (mn : String) (ps : List α) : Option (List (TSurf α × Int)) := do
  let parts ← macroParts mn ps
  let colls ← parts.mapM fun (m, q, side) => (convertCard e1 e2 m q).map fun coll => coll.map fun (t, s) => (t, s * side)
  pure colls.flatten

/-- a facet reference `b.k` (1-based) designates the k-th entry -/
def facetOf (coll : List (TSurf α × Int)) (k : Nat) : Option (TSurf α × Int) :=
  if k == 0 then none else coll[k - 1]?
end

end T4V
