import T4V.Model.Surface
import T4V.Model.Transform
/-!
# Macrobodies (model): `Kernel/Surface/MacroBodies.py` + `to_surfaces_macro` + `SurfaceCollection.join`

`macroParts` = body ↦ facet list `(mnemonic, parameters, side)` in MCNP's facet order; `convertMacro` =
each facet converted like an ordinary card, its side multiplied in.  Modelled: RPP, BOX, SPH, RCC,
RHP/HEX with 9 and 15 entries, WED, TRC, REC with 10 and 12 entries, ELL in both parameterisations and ARB
(vertex table, facet descriptors, orientation by the centroid).
-/
namespace T4V

section
variable {α : Type} [Add α] [Sub α] [Mul α] [Div α] [Neg α] [OfNat α 0] [OfNat α 1]
  [LT α] [DecidableLT α] [BEq α] [Transc α]

/-- `planeParamsFromNormalAndPoint` -/
def planeNP (n pt : V3 α) : List α := [n.x, n.y, n.z, n.dot pt]

abbrev Part (α : Type) := String × List α × Int

/-- `renorm(vec, norm)`: `rescale(norm / mag(vec), vec)`; a zero vector raises `ZeroDivisionError` -/
def renorm? (v : V3 α) (norm : α := 1) : Option (V3 α) :=
  let m := Transc.sqrt (v.dot v)
  if m == 0 then none else some (V3.smul (norm / m) v)

/-- `rotate(vec, axis, angle)` (Rodrigues) -/
def rotateV (v k : V3 α) (angle : α) : V3 α :=
  let c := Transc.cos angle; let s := Transc.sin angle
  let t1 := V3.smul c v
  let t2 := V3.smul s (k.cross v)
  let t3 := V3.smul ((1 - c) * k.dot v) k
  ⟨(0 + t1.x + t2.x) + t3.x, (0 + t1.y + t2.y) + t3.y, (0 + t1.z + t2.z) + t3.z⟩

def inv? (a : α) : Option α := if a == 0 then none else some (1 / a)

/-- the elliptic cylinder / spheroid in its own frame moved to the lab frame: `transformation_quad` with
the rows `(u1, u2, u3)` and the origin `o` -/
def quadInFrame (q : List α) (o u1 u2 u3 : V3 α) : Option (List α) := transformQuad q ⟨o, ⟨u1, u2, u3⟩⟩

/-- digits of a facet descriptor (`parse_facet`): zero digits are skipped, vertex numbers are 1-based -/
def facetDigits (n : Nat) : List Nat :=
  let rec go : Nat → Nat → List Nat → List Nat
    | 0, _, acc => acc
    | fuel + 1, m, acc => if m == 0 then acc else go fuel (m / 10) (if m % 10 == 0 then acc else (m % 10 - 1) :: acc)
  go 20 n []

def macroParts (mn : String) (ps : List α) : Option (List (Part α)) :=
  match mn, ps with
  | "rpp", [x0, x1, y0, y1, z0, z1] =>
      some [("p", [1, 0, 0, x1], 1), ("p", [1, 0, 0, x0], -1), ("p", [0, 1, 0, y1], 1), ("p", [0, 1, 0, y0], -1),
            ("p", [0, 0, 1, z1], 1), ("p", [0, 0, 1, z0], -1)]
  | "box", [vx, vy, vz, ax, ay, az, bx, by', bz, cx, cy, cz] =>
      let v : V3 α := ⟨vx, vy, vz⟩; let a : V3 α := ⟨ax, ay, az⟩
      let b : V3 α := ⟨bx, by', bz⟩; let c : V3 α := ⟨cx, cy, cz⟩
      let nab := a.cross b; let nbc := b.cross c; let nca := c.cross a
      let sab : Int := if nab.dot c < 0 then 1 else -1
      let sbc : Int := if nbc.dot a < 0 then 1 else -1
      let sca : Int := if nca.dot b < 0 then 1 else -1
      some [("p", planeNP nbc (v.add a), -sbc), ("p", planeNP nbc v, sbc),
            ("p", planeNP nca (v.add b), -sca), ("p", planeNP nca v, sca),
            ("p", planeNP nab (v.add c), -sab), ("p", planeNP nab v, sab)]
  | "sph", [x, y, z, r] => some [("s", [x, y, z, r], 1)]
  | "rcc", [vx, vy, vz, hx, hy, hz, r] =>
      let v : V3 α := ⟨vx, vy, vz⟩; let h : V3 α := ⟨hx, hy, hz⟩
      some [("c", [vx, vy, vz, r, hx, hy, hz], 1), ("p", planeNP h (v.add h), 1), ("p", planeNP h v, -1)]
  | "rhp", [vx, vy, vz, hx, hy, hz, rx, ry, rz, sx, sy, sz, tx, ty, tz] =>
      let v : V3 α := ⟨vx, vy, vz⟩; let h : V3 α := ⟨hx, hy, hz⟩
      let r : V3 α := ⟨rx, ry, rz⟩; let s : V3 α := ⟨sx, sy, sz⟩; let t : V3 α := ⟨tx, ty, tz⟩
      some [("p", planeNP r (v.add r), 1), ("p", planeNP r (v.sub r), -1),
            ("p", planeNP s (v.add s), 1), ("p", planeNP s (v.sub s), -1),
            ("p", planeNP t (v.add t), 1), ("p", planeNP t (v.sub t), -1),
            ("p", planeNP h (v.add h), 1), ("p", planeNP h v, -1)]
  | "wed", [vx, vy, vz, ax, ay, az, bx, by', bz, hx, hy, hz] =>
      let v : V3 α := ⟨vx, vy, vz⟩; let a : V3 α := ⟨ax, ay, az⟩
      let b : V3 α := ⟨bx, by', bz⟩; let h : V3 α := ⟨hx, hy, hz⟩
      let c := (a.sub b).cross h
      let sc : Int := if (0:α) < a.dot c then 1 else -1
      some [("p", planeNP c (v.add a), sc), ("p", planeNP a (v.add b), -1), ("p", planeNP b (v.add a), -1),
            ("p", planeNP h (v.add h), 1), ("p", planeNP h v, -1)]
  | "trc", [vx, vy, vz, hx, hy, hz, r0, r1] =>
      let v : V3 α := ⟨vx, vy, vz⟩; let h : V3 α := ⟨hx, hy, hz⟩
      let hl := Transc.sqrt h.norm2
      -- `rad0 / (rad0 - rad1)` and `… / mag(height)`: Python raises ZeroDivisionError
      if r0 - r1 == 0 || hl == 0 then none else
      let d := r0 / (r0 - r1)
      let apex := v.add (V3.smul d h)
      let tanA := fabs (r1 - r0) / hl
      let u := V3.smul (1 / hl) h
      some [("k", [apex.x, apex.y, apex.z, tanA, u.x, u.y, u.z], 1), ("p", planeNP h (v.add h), 1),
            ("p", planeNP h v, -1)]
  | "rhp", [vx, vy, vz, hx, hy, hz, rx, ry, rz] =>
      let v : V3 α := ⟨vx, vy, vz⟩; let h : V3 α := ⟨hx, hy, hz⟩; let r : V3 α := ⟨rx, ry, rz⟩
      match renorm? h with
      | none => none
      | some uh =>
        let s := rotateV r uh (Transc.pi / (1 + 1 + 1))
        let t := rotateV r uh (two * Transc.pi / (1 + 1 + 1))
        some [("p", planeNP r (v.add r), 1), ("p", planeNP r (v.sub r), -1),
              ("p", planeNP s (v.add s), 1), ("p", planeNP s (v.sub s), -1),
              ("p", planeNP t (v.add t), 1), ("p", planeNP t (v.sub t), -1),
              ("p", planeNP h (v.add h), 1), ("p", planeNP h v, -1)]
  | "rec", [vx, vy, vz, hx, hy, hz, ax, ay, az, bx, by', bz] =>
      let v : V3 α := ⟨vx, vy, vz⟩; let h : V3 α := ⟨hx, hy, hz⟩
      let a : V3 α := ⟨ax, ay, az⟩; let b : V3 α := ⟨bx, by', bz⟩
      do
        let ia ← inv? (a.dot a); let ib ← inv? (b.dot b)
        let ua ← renorm? a; let ub ← renorm? b; let uh ← renorm? h
        let q ← quadInFrame [ia, ib, 0, 0, 0, 0, 0, 0, 0, -1] v ua ub uh
        pure [("gq", q, 1), ("p", planeNP h (v.add h), 1), ("p", planeNP h v, -1)]
  | "rec", [vx, vy, vz, hx, hy, hz, ax, ay, az, bl] =>
      let v : V3 α := ⟨vx, vy, vz⟩; let h : V3 α := ⟨hx, hy, hz⟩; let a : V3 α := ⟨ax, ay, az⟩
      do
        let b ← renorm? (h.cross a) bl
        let ia ← inv? (a.dot a); let ib ← inv? (bl * bl)
        let ua ← renorm? a; let ub ← renorm? b; let uh ← renorm? h
        let q ← quadInFrame [ia, ib, 0, 0, 0, 0, 0, 0, 0, -1] v ua ub uh
        pure [("gq", q, 1), ("p", planeNP h (v.add h), 1), ("p", planeNP h v, -1)]
  | "ell", [a1, a2, a3, b1, b2, b3, last] =>
      do
        let (c, va, min2) ←
          if (0:α) < last then
            let f1 : V3 α := ⟨a1, a2, a3⟩; let f2 : V3 α := ⟨b1, b2, b3⟩
            let c := V3.smul (1 / two) (f1.add f2)
            let rel := f1.sub c
            (renorm? rel last).map fun va =>
              (c, va, last * last - (last - Transc.sqrt (rel.dot rel)) * (last - Transc.sqrt (rel.dot rel)))
          else some ((⟨a1, a2, a3⟩ : V3 α), (⟨b1, b2, b3⟩ : V3 α), last * last)
        let ua ← renorm? va
        let tol : α := 1 / (((1:α)+1+1+1+1) * (1+1) * (((1:α)+1+1+1+1) * (1+1)) * (((1:α)+1+1+1+1) * (1+1)))   -- 1e-3
        let pick (e : V3 α) (comp : α) : Option (V3 α) := renorm? (e.sub (V3.smul comp ua))
        let ub ←
          if tol < fabs (1 - fabs ua.x) then pick ⟨1, 0, 0⟩ ua.x
          else if tol < fabs (1 - fabs ua.y) then pick ⟨0, 1, 0⟩ ua.y
          else pick ⟨0, 0, 1⟩ ua.z
        let uc := ua.cross ub
        let ia ← inv? (va.dot va); let im ← inv? min2
        let q ← quadInFrame [ia, im, im, 0, 0, 0, 0, 0, 0, -1] c ua ub uc
        pure [("gq", q, 1)]
  | _, _ => none

/-- `arb`: eight vertices, six facet descriptors (as numbers); `toNat` reads a descriptor -/
def arbParts (e1 e2 : α) (toNat : α → Nat) (ps : List α) : Option (List (Part α)) :=
  if ps.length != 30 then none else
  let vs : List (V3 α) := (List.range 8).filterMap fun i =>
    match ps.drop (3 * i) with
    | x :: y :: z :: _ => some ⟨x, y, z⟩
    | _ => none
  let facets := ((ps.drop 24).map fun d => facetDigits (toNat d)).filter (!·.isEmpty)
  let used := (facets.flatten.eraseDups).length
  let vs := vs.take used
  let n : α := vs.foldl (fun acc _ => acc + 1) 0
  let sum := vs.foldl (fun (acc : V3 α) v => ⟨acc.x + v.x, acc.y + v.y, acc.z + v.z⟩) V3.zero
  let centroid := V3.smul (1 / n) sum
  facets.mapM fun fc =>
    match fc with
    | i :: j :: k :: _ =>
        match vs[i]?, vs[j]?, vs[k]? with
        | some p1, some p2, some p3 =>
            match planeFromPoints e1 e2 p1 p2 p3 with
            | some [a, b, c, d] =>
                let dist := centroid.sub p1
                if (0:α) < dist.x * a + dist.y * b + dist.z * c then some ("p", [-a, -b, -c, -d], 1)
                else some ("p", [a, b, c, d], 1)
            | _ => none
        | _, _, _ => none
    | _ => none

/-- `to_surfaces_macro` + `convert_mcnp_surface`: every facet converted, sides multiplied
(`SurfaceCollection.join`) -/
def convertMacro (e1 e2 : α) (mn : String) (ps : List α) (toNat : α → Nat := fun _ => 0) :
    Option (List (TSurf α × Int)) := do
  let parts ← if mn == "arb" then arbParts e1 e2 toNat ps else macroParts mn ps
  let colls ← parts.mapM fun (m, q, side) => (convertCard e1 e2 m q).map fun coll => coll.map fun (t, s) => (t, s * side)
  pure colls.flatten

/-- a facet reference `b.k` (1-based) designates the k-th entry -/
def facetOf (coll : List (TSurf α × Int)) (k : Nat) : Option (TSurf α × Int) :=
  if k == 0 then none else coll[k - 1]?
end

end T4V
