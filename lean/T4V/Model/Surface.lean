import T4V.Num
import T4V.Spec.T4
/-!
# Elementary surfaces (model): `normalize_surface` + `MIP/geom/forcad.py` (`mcnp2cad`) +
`ConversionSurfaceMCNPToT4.py`

`cadOf` = card (mnemonic, parameters) ↦ `SurfaceMCNP` (kind, frame = (point, axis), complementary
parameters); `convertSurf` = `conversion_surface_params`: `SurfaceMCNP` ↦ signed list of TRIPOLI-4
surfaces (`SurfaceCollection`).  Generic in the scalar type.
-/
namespace T4V

inductive MKind | p | s | c | k | t | sq | gq
deriving Repr, DecidableEq, Inhabited

/-- `SurfaceMCNP` (without boundary condition and provenance) -/
structure MSurf (α : Type) where
  kind : MKind
  pt : V3 α
  ax : V3 α
  compl : List α := []
  /-- sheet selector of a cone (third complementary parameter), `none` = two sheets -/
  nappe : Option α := none
deriving Repr, Inhabited

section
variable {α : Type} [Add α] [Sub α] [Mul α] [Div α] [Neg α] [OfNat α 0] [OfNat α 1]
  [LT α] [DecidableLT α] [BEq α] [Transc α]

/-- 180, spelt as in `Spec/T4` -/
def deg180 : α := ((1:α)+1+1) * ((1+1+1) * (1+1)) * ((1+1+1+1+1) * (1+1))

def fabs (a : α) : α := if a < 0 then -a else a

/-- the orientation cascade of `planeParamsFromPoints`: origin negative, else (0,0,∞), (0,∞,0), (∞,0,0)
positive; `P` / `F` = the parameters as computed / with all signs flipped -/
def orient (e2 pos ux uy uz : α) (P F : List α) : Option (List α) :=
  if pos < -e2 then some F else if e2 < pos then some P
  else if uz < -e2 then some F else if e2 < uz then some P
  else if uy < -e2 then some F else if e2 < uy then some P
  else if ux < -e2 then some F else if e2 < ux then some P
  else none

/-- `planeParamsFromPoints` with its two tolerances (`1e-10`, `1e-14`) as parameters -/
def planeFromPoints (e1 e2 : α) (p1 p2 p3 : V3 α) : Option (List α) :=
  let n := (p1.sub p2).cross (p1.sub p3)
  let l2 := n.norm2
  if l2 < e1 || l2 == e1 then none else
  let u := V3.smul (1 / Transc.sqrt l2) n
  let pos := u.dot p1
  orient e2 pos u.x u.y u.z [u.x, u.y, u.z, pos] [-u.x, -u.y, -u.z, -pos]

def mkPlane (pt ax : V3 α) : MSurf α := { kind := .p, pt := pt, ax := ax }
def mkSphere (x y z r : α) : MSurf α := { kind := .s, pt := ⟨x, y, z⟩, ax := ⟨0, 0, 1⟩, compl := [r] }
def mkCyl (x y z r a b c : α) : MSurf α := { kind := .c, pt := ⟨x, y, z⟩, ax := ⟨a, b, c⟩, compl := [r] }
/-- `_cone` with `_offset = 0`: complementary parameters `(tana·0, atan tana, nappe)` -/
def mkCone (x y z tana a b c : α) (nappe : Option α) : MSurf α :=
  { kind := .k, pt := ⟨x + a * 0, y + b * 0, z + c * 0⟩, ax := ⟨a, b, c⟩,
    compl := [tana * 0, Transc.atan tana], nappe := nappe }
def mkTorus (x y z a b c r1 r2 r3 : α) : MSurf α :=
  { kind := .t, pt := ⟨x, y, z⟩, ax := ⟨a, b, c⟩, compl := [r1, r2, r3] }

/-- the cone cards: `p[1]**0.5` of a negative number is a complex number in Python and `atan` then raises
`TypeError`: negative `t²` is rejected -/
def coneCard (t2 : α) (mk : α → MSurf α) : Option (MSurf α) :=
  if t2 < 0 then none else some (mk (Transc.sqrt t2))

/-- `p` with four entries -/
def cadPlane4 (a b c d : α) : MSurf α :=
  let n := Transc.sqrt (a * a + b * b + c * c)
  let a := a / n; let b := b / n; let c := c / n; let d := d / n
  mkPlane ⟨0 + a * d, 0 + b * d, 0 + c * d⟩ ⟨a, b, c⟩

/-- the `p` card: `A/c` with `c = √(A²+B²+C²) = 0` raises `ZeroDivisionError` in Python -/
def planeCard (a b c d : α) : Option (MSurf α) :=
  if Transc.sqrt (a * a + b * b + c * c) == 0 then none else some (cadPlane4 a b c d)

/-- `xx` / `yy` / `zz`: point-defined axisymmetric surfaces; `axis` = 0, 1, 2 -/
def cadAxisym (axis : Nat) (ps : List α) : Option (MSurf α) :=
  let unitv : V3 α := match axis with | 0 => ⟨1, 0, 0⟩ | 1 => ⟨0, 1, 0⟩ | _ => ⟨0, 0, 1⟩
  let at_ (v : α) : V3 α := match axis with | 0 => ⟨v, 0, 0⟩ | 1 => ⟨0, v, 0⟩ | _ => ⟨0, 0, v⟩
  match ps with
  | [a1, _] => some (mkPlane (at_ a1) unitv)
  | [a1, r1, a2, r2] =>
      if a1 == a2 then some (mkPlane (at_ a1) unitv)
      else if r1 == r2 then some (mkCyl 0 0 0 r1 unitv.x unitv.y unitv.z)
      else
        let tana := (r1 - r2) / (a1 - a2)
        let x0 := a1 - r1 / tana
        let nappe : α := if x0 < a1 then 1 else -1
        let apex := at_ x0
        some (mkCone apex.x apex.y apex.z (fabs tana) unitv.x unitv.y unitv.z (some nappe))
  | _ => none

/-- `mcnp2cad[mnemonic]` (+ the three-point form of `normalize_surface`) on a card whose parameter count was accepted -/
def cadOfRaw (e1 e2 : α) (mn : String) (ps : List α) : Option (MSurf α) :=
  match mn with
  | "p" =>
      match ps with
      | [a, b, c, d] => planeCard a b c d
      | [x1, y1, z1, x2, y2, z2, x3, y3, z3] =>
          match planeFromPoints e1 e2 ⟨x1, y1, z1⟩ ⟨x2, y2, z2⟩ ⟨x3, y3, z3⟩ with
          | some [a, b, c, d] => planeCard a b c d
          | _ => none
      | _ => none
  | "px" =>
      match ps with
      | [d] => some (mkPlane ⟨d, 0, 0⟩ ⟨1, 0, 0⟩)
      | _ => none
  | "py" =>
      match ps with
      | [d] => some (mkPlane ⟨0, d, 0⟩ ⟨0, 1, 0⟩)
      | _ => none
  | "pz" =>
      match ps with
      | [d] => some (mkPlane ⟨0, 0, d⟩ ⟨0, 0, 1⟩)
      | _ => none
  | "so" =>
      match ps with
      | [r] => some (mkSphere 0 0 0 r)
      | _ => none
  | "s" =>
      match ps with
      | [x, y, z, r] => some (mkSphere x y z r)
      | _ => none
  | "sx" =>
      match ps with
      | [x, r] => some (mkSphere x 0 0 r)
      | _ => none
  | "sy" =>
      match ps with
      | [y, r] => some (mkSphere 0 y 0 r)
      | _ => none
  | "sz" =>
      match ps with
      | [z, r] => some (mkSphere 0 0 z r)
      | _ => none
  | "c/x" =>
      match ps with
      | [y, z, r] => some (mkCyl 0 y z r 1 0 0)
      | _ => none
  | "c/y" =>
      match ps with
      | [x, z, r] => some (mkCyl x 0 z r 0 1 0)
      | _ => none
  | "c/z" =>
      match ps with
      | [x, y, r] => some (mkCyl x y 0 r 0 0 1)
      | _ => none
  | "cx" =>
      match ps with
      | [r] => some (mkCyl 0 0 0 r 1 0 0)
      | _ => none
  | "cy" =>
      match ps with
      | [r] => some (mkCyl 0 0 0 r 0 1 0)
      | _ => none
  | "cz" =>
      match ps with
      | [r] => some (mkCyl 0 0 0 r 0 0 1)
      | _ => none
  | "k/x" =>
      match ps with
      | [x, y, z, t2] => coneCard t2 (fun tana => mkCone x y z tana 1 0 0 none)
      | [x, y, z, t2, s] => coneCard t2 (fun tana => mkCone x y z tana 1 0 0 (some s))
      | _ => none
  | "k/y" =>
      match ps with
      | [x, y, z, t2] => coneCard t2 (fun tana => mkCone x y z tana 0 1 0 none)
      | [x, y, z, t2, s] => coneCard t2 (fun tana => mkCone x y z tana 0 1 0 (some s))
      | _ => none
  | "k/z" =>
      match ps with
      | [x, y, z, t2] => coneCard t2 (fun tana => mkCone x y z tana 0 0 1 none)
      | [x, y, z, t2, s] => coneCard t2 (fun tana => mkCone x y z tana 0 0 1 (some s))
      | _ => none
  | "kx" =>
      match ps with
      | [x, t2] => coneCard t2 (fun tana => mkCone x 0 0 tana 1 0 0 none)
      | [x, t2, s] => coneCard t2 (fun tana => mkCone x 0 0 tana 1 0 0 (some s))
      | _ => none
  | "ky" =>
      match ps with
      | [y, t2] => coneCard t2 (fun tana => mkCone 0 y 0 tana 0 1 0 none)
      | [y, t2, s] => coneCard t2 (fun tana => mkCone 0 y 0 tana 0 1 0 (some s))
      | _ => none
  | "kz" =>
      match ps with
      | [z, t2] => coneCard t2 (fun tana => mkCone 0 0 z tana 0 0 1 none)
      | [z, t2, s] => coneCard t2 (fun tana => mkCone 0 0 z tana 0 0 1 (some s))
      | _ => none
  | "sq" =>
      match ps with
      | [a, b, c, d, e, f, g, x, y, z] =>
          some { kind := .sq, pt := V3.zero, ax := V3.zero, compl := [a, b, c, d, e, f, g, x, y, z] }
      | _ => none
  | "gq" =>
      match ps with
      | [a, b, c, d, e, f, g, h, j, k] =>
          some { kind := .gq, pt := V3.zero, ax := V3.zero, compl := [a, b, c, d, e, f, g, h, j, k] }
      | _ => none
  | "tx" =>
      match ps with
      | [x, y, z, r1, r2] => some (mkTorus x y z 1 0 0 r1 r2 r2)
      | [x, y, z, r1, r2, r3] => some (mkTorus x y z 1 0 0 r1 r2 r3)
      | _ => none
  | "ty" =>
      match ps with
      | [x, y, z, r1, r2] => some (mkTorus x y z 0 1 0 r1 r2 r2)
      | [x, y, z, r1, r2, r3] => some (mkTorus x y z 0 1 0 r1 r2 r3)
      | _ => none
  | "tz" =>
      match ps with
      | [x, y, z, r1, r2] => some (mkTorus x y z 0 0 1 r1 r2 r2)
      | [x, y, z, r1, r2, r3] => some (mkTorus x y z 0 0 1 r1 r2 r3)
      | _ => none
  | "c" =>
      match ps with
      | [x, y, z, r, a, b, c] => some (mkCyl x y z r a b c)          -- generic forms used by macrobody facets
      | _ => none
  | "k" =>
      match ps with
      | [x, y, z, tana, a, b, c] => some (mkCone x y z tana a b c none)
      | _ => none
  | "x" => cadAxisym 0 ps
  | "y" => cadAxisym 1 ps
  | "z" => cadAxisym 2 ps
  | _ => none

/-- the table `N_PARAMS` of `normalize_surface` (plus the generic forms `c`, `k` produced for macrobody facets):
the parameter counts each mnemonic accepts; an unknown mnemonic has no entry -/
def surfaceArity (mn : String) : Option (List Nat) :=
  match mn with
  | "p" => some [4, 9] | "px" => some [1] | "py" => some [1] | "pz" => some [1]
  | "so" => some [1] | "s" => some [4] | "sx" => some [2] | "sy" => some [2] | "sz" => some [2]
  | "c/x" => some [3] | "c/y" => some [3] | "c/z" => some [3] | "cx" => some [1] | "cy" => some [1] | "cz" => some [1]
  | "k/x" => some [4, 5] | "k/y" => some [4, 5] | "k/z" => some [4, 5]
  | "kx" => some [2, 3] | "ky" => some [2, 3] | "kz" => some [2, 3]
  | "sq" => some [10] | "gq" => some [10] | "tx" => some [5, 6] | "ty" => some [5, 6] | "tz" => some [5, 6]
  | "x" => some [2, 4] | "y" => some [2, 4] | "z" => some [2, 4]
  | "c" => some [7] | "k" => some [7]
  | _ => none

/-- `normalize_surface` (parameter count checked against the table first) + `mcnp2cad[mnemonic]` -/
def cadOf (e1 e2 : α) (mn : String) (ps : List α) : Option (MSurf α) :=
  match surfaceArity mn with
  | some ns => if ns.contains ps.length then cadOfRaw e1 e2 mn ps else none
  | none => none

/-- `convert_plane` on a frame (point `p`, normal `u`) -/
def convertPlane (p u : V3 α) : TSurf α :=
  let pos := -(u.x * p.x + u.y * p.y + u.z * p.z)
  if u.x == 0 && u.y == 0 && decide ((0:α) < u.z) then { kind := .planez, ps := [-pos / u.z] }
  else if u.y == 0 && u.z == 0 && decide ((0:α) < u.x) then { kind := .planex, ps := [-pos / u.x] }
  else if u.z == 0 && u.x == 0 && decide ((0:α) < u.y) then { kind := .planey, ps := [-pos / u.y] }
  else { kind := .plane, ps := [u.x, u.y, u.z, pos] }

def convertCylinder (p u : V3 α) (r : α) : TSurf α :=
  if u.x == 0 && u.y == 0 then { kind := .cylz, ps := [p.x, p.y, r] }
  else if u.y == 0 && u.z == 0 then { kind := .cylx, ps := [p.y, p.z, r] }
  else if u.z == 0 && u.x == 0 then { kind := .cyly, ps := [p.x, p.z, r] }
  else { kind := .cyl, ps := [p.x, p.y, p.z, r, u.x, u.y, u.z] }

/-- `eval_quadric` -/
def evalQuadric (q : List α) (p : V3 α) : Option α :=
  match q with
  | [a, b, c, d, e, f, g, h, j, k] =>
      some (a * (p.x * p.x) + b * (p.y * p.y) + c * (p.z * p.z) + d * p.x * p.y + e * p.y * p.z + f * p.z * p.x
            + g * p.x + h * p.y + j * p.z + k)
  | _ => none

/-- `convert_special_quadric` -/
def convertSQ (ps : List α) : Option (TSurf α) :=
  match ps with
  | [a, b, c, d, e, f, g, x, y, z] =>
      let gq : List α := [a, b, c, 0, 0, 0,
        two * d - two * a * x, two * e - two * b * y, two * f - two * c * z,
        a * (x * x) + b * (y * y) + c * (z * z) - two * (d * x + e * y + f * z) + g]
      match evalQuadric gq ⟨x, y, z⟩ with
      | some v => if (0:α) < v then some { kind := .quad, ps := gq.map fun t => -t } else some { kind := .quad, ps := gq }
      | none => none
  | _ => none

/-- `convert_cone`: the cone, plus the apex plane with its side when a sheet is selected -/
def convertCone (s : MSurf α) : Option (List (TSurf α × Int)) :=
  match s.compl with
  | [_, at_] =>
      let p := s.pt; let u := s.ax
      let theta := deg180 * at_ / Transc.pi
      let cone : TSurf α :=
        if u.x == 0 && u.y == 0 then { kind := .conez, ps := [p.x, p.y, p.z, theta] }
        else if u.y == 0 && u.z == 0 then { kind := .conex, ps := [p.x, p.y, p.z, theta] }
        else if u.z == 0 && u.x == 0 then { kind := .coney, ps := [p.x, p.y, p.z, theta] }
        else { kind := .cone, ps := [p.x, p.y, p.z, theta, u.x, u.y, u.z] }
      match s.nappe with
      | none => some [(cone, 1)]
      | some n =>
          if n == 0 then some [(cone, 1)] else
          let pos := -(u.x * p.x + u.y * p.y + u.z * p.z)
          let nsign : Int := if n < 0 then -1 else 1        -- int(nappe) for nappe = ±1
          let (plane, axisSign) : TSurf α × Int :=
            if u.x == 0 && u.y == 0 then ({ kind := .planez, ps := [-pos / u.z] }, if (0:α) < u.z then 1 else -1)
            else if u.y == 0 && u.z == 0 then ({ kind := .planex, ps := [-pos / u.x] }, if (0:α) < u.x then 1 else -1)
            else if u.z == 0 && u.x == 0 then ({ kind := .planey, ps := [-pos / u.y] }, if (0:α) < u.y then 1 else -1)
            else ({ kind := .plane, ps := [u.x, u.y, u.z, pos] }, 1)
          some [(cone, 1), (plane, -nsign * axisSign)]
  | _ => none

/-- `convert_torus`, axis-aligned case (`np.allclose(|axis|, eₖ)` read as equality) -/
def convertTorus (s : MSurf α) : Option (TSurf α) :=
  let a : V3 α := ⟨fabs s.ax.x, fabs s.ax.y, fabs s.ax.z⟩
  let ps := [s.pt.x, s.pt.y, s.pt.z] ++ s.compl
  if a.x == 1 && a.y == 0 && a.z == 0 then some { kind := .torusx, ps := ps }
  else if a.x == 0 && a.y == 1 && a.z == 0 then some { kind := .torusy, ps := ps }
  else if a.x == 0 && a.y == 0 && a.z == 1 then some { kind := .torusz, ps := ps }
  else none

/-- `conversion_surface_params` -/
def convertSurf (s : MSurf α) : Option (List (TSurf α × Int)) :=
  match s.kind with
  | .k => convertCone s
  | .p => some [(convertPlane s.pt s.ax, 1)]
  | .c => match s.compl with
      | [r] => some [(convertCylinder s.pt s.ax r, 1)]
      | _ => none
  | .s => match s.compl with
      | [r] => some [({ kind := .sphere, ps := [s.pt.x, s.pt.y, s.pt.z, r] }, 1)]
      | _ => none
  | .sq => (convertSQ s.compl).map fun t => [(t, 1)]
  | .gq => some [({ kind := .quad, ps := s.compl }, 1)]
  | .t => (convertTorus s).map fun t => [(t, 1)]

/-- the card converted: what a reference `±n` to the card designates -/
def convertCard (e1 e2 : α) (mn : String) (ps : List α) : Option (List (TSurf α × Int)) :=
  (cadOf e1 e2 mn ps).bind convertSurf

/-- sense of a point with respect to a signed collection, as `pot_expand_surfs` reads it:
a negative reference is the intersection of the negative (side-adjusted) sides; `none` when a
parameter list is ill-formed -/
def collNegative (coll : List (TSurf α × Int)) (p : V3 α) : Option Bool :=
  coll.foldr (fun (sf : TSurf α × Int) acc =>
    match sf.1.f p, acc with
    | some v, some b => some (b && (if sf.2 < 0 then decide ((0:α) < v) else decide (v < 0)))
    | _, _ => none) (some true)

/-- a positive reference is the union of the positive (side-adjusted) sides -/
def collPositive (coll : List (TSurf α × Int)) (p : V3 α) : Option Bool :=
  coll.foldr (fun (sf : TSurf α × Int) acc =>
    match sf.1.f p, acc with
    | some v, some b => some (b || (if sf.2 < 0 then decide (v < 0) else decide ((0:α) < v)))
    | _, _ => none) (some false)
end

end T4V
