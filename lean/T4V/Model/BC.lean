/-!
# `CConversionBoundaryCondition` (model): flagged MCNP surfaces → boundary-condition entries
-/
namespace T4V

/-- what the boundary-condition code sees of an entry of the MCNP surface dictionary -/
structure BCSurf where
  id : Nat
  flag : String          -- boundary_cond of the first member: "", "*", "+", …
  parts : Nat            -- number of (SurfaceMCNP, side) members
deriving Repr, DecidableEq

inductive BCErr | macrobody | badFlag (f : String)
deriving Repr, DecidableEq

def bcKind? : String → Option String
  | "*" => some "REFLECTION"
  | "+" => some "COSINUS"
  | _ => none

/-- `recuperateBoundaryCondition` + `conversionBoundCond`: dictionary order is kept -/
def bcEntries : List BCSurf → Except BCErr (List (Nat × String))
  | [] => .ok []
  | s :: rest =>
      if s.flag == "" then bcEntries rest
      else if s.parts > 1 then .error .macrobody
      else
        match bcKind? s.flag with
        | none => .error (.badFlag s.flag)
        | some k =>
          match bcEntries rest with
          | .ok es => .ok ((s.id, k) :: es)
          | .error e => .error e

/-- the text `writeT4BoundCond` writes: nothing when there is no entry, else the block with its declared count -/
def bcTextLines (es : List (Nat × String)) : List String :=
  if es.isEmpty then [] else
  ["", "BOUNDARY_CONDITION", toString es.length] ++
    es.map (fun (i, k) => "ALL_COMPLETE" ++ " " ++ k ++ " " ++ toString i) ++ ["END_BOUNDARY_CONDITION"]

end T4V
