import T4V.Num
/-!
# `Kernel/Volume/Lattice.py` (model): index enumeration, array lookup, lattice vectors
-/
namespace T4V

def rangeIncl (lo hi : Int) : List Int := (List.range (hi - lo + 1).toNat).map fun (i : Nat) => lo + Int.ofNat i

/-- `LatticeBounds.indices._indices`, argument = the bounds **reversed** (the Python code peels off the
last range: outer loop over the last index, inner recursion over the others) -/
def indicesRev : List (Int × Int) → List (List Int)
  | [] => []                                            -- IndexError in the Python code
  | [(lo, hi)] => (rangeIncl lo hi).map fun x => [x]
  | (lo, hi) :: rest => (rangeIncl lo hi).flatMap fun e => (indicesRev rest).map fun heads => heads ++ [e]

/-- `LatticeBounds.indices` -/
def latIndices (bounds : List (Int × Int)) : List (List Int) := indicesRev bounds.reverse

/-- `LatticeBounds.size` (a product; may be ≤ 0 for reversed ranges) -/
def latSize (bounds : List (Int × Int)) : Int := bounds.foldl (fun x y => x * (y.2 - y.1 + 1)) 1

/-- `LatticeBounds.dims`: number of non-trivial ranges -/
def latDims (bounds : List (Int × Int)) : Nat := (bounds.filter fun b => b.1 != b.2).length

/-- `LatticeSpec.items`: indices zipped with the fill array -/
def latItems {β} (bounds : List (Int × Int)) (spec : List β) : List (List Int × β) := (latIndices bounds).zip spec

section
variable {α : Type} [Add α] [Sub α] [Mul α] [Div α] [Neg α] [OfNat α 0] [OfNat α 1]

def intToScalar (i : Int) : α :=
  let n : α := (List.range i.natAbs).foldl (fun acc _ => acc + 1) 0
  if i < 0 then -n else n

/-- `latticeVector`: Σ index_k · base_k (zip: surplus indices are ignored) -/
def latticeVector (base : List (V3 α)) (index : List Int) : V3 α :=
  (index.zip base).foldl (fun acc p => acc.add (V3.smul (intToScalar p.1) p.2)) V3.zero

/-- `squareLatticeReciprocalVecs`: per pair of planes ((p₁, n₁), side₁), ((p₂, _), _):
`n / (n · (p₁ − p₂))` with `n = −n₁` when the first-listed reference is positive -/
def squareReciprocal : List ((V3 α × V3 α) × Int) → Option (List (V3 α))
  | [] => some []
  | ((p1, n1), s1) :: ((p2, _), _) :: rest =>
      let n := if s1 == 1 then V3.smul (-1) n1 else n1
      let dist := (p1.sub p2).dot n
      (squareReciprocal rest).map fun r => V3.smul (1 / dist) n :: r
  | [_] => none

/-- `latticeReciprocal`: dual basis of one, two or three vectors -/
def latticeReciprocal : List (V3 α) → Option (List (V3 α))
  | [v] => some [V3.smul (1 / v.dot v) v]
  | [v1, v2] =>
      let a := v1.norm2; let b := v2.norm2; let c := v1.dot v2
      let den := a * b - c * c
      some [(V3.smul (b / den) v1).add (V3.smul (-c / den) v2), (V3.smul (a / den) v2).add (V3.smul (-c / den) v1)]
  | [v1, v2, v3] =>
      let c12 := v1.cross v2; let c23 := v2.cross v3; let c31 := v3.cross v1
      let norm := (1 + 1 + 1) / (v1.dot c23 + v2.dot c31 + v3.dot c12)
      some [V3.smul norm c23, V3.smul norm c31, V3.smul norm c12]
  | _ => none

/-- `squareLatticeBaseVectors` -/
def squareBaseVectors (surfs : List ((V3 α × V3 α) × Int)) : Option (List (V3 α)) :=
  if surfs.length != 2 && surfs.length != 4 && surfs.length != 6 then none
  else (squareReciprocal surfs).bind latticeReciprocal
end

/-! ## `CellConversion.develop_lattice`: one new cell per array entry -/

section
variable {α : Type} [Add α] [Sub α] [Mul α] [Div α] [Neg α] [OfNat α 0] [OfNat α 1]

/-- `compose_transform(trans1, trans2)` on 12-number lists (matrix row-major): `trans1` first -/
def composeTr (t1 t2 : List α) : Option (List α) :=
  match t1, t2 with
  | [a1, a2, a3, m11, m12, m13, m21, m22, m23, m31, m32, m33],
    [b1, b2, b3, n11, n12, n13, n21, n22, n23, n31, n32, n33] =>
      some [n11 * a1 + n12 * a2 + n13 * a3 + b1, n21 * a1 + n22 * a2 + n23 * a3 + b2, n31 * a1 + n32 * a2 + n33 * a3 + b3,
            n11 * m11 + n12 * m21 + n13 * m31, n11 * m12 + n12 * m22 + n13 * m32, n11 * m13 + n12 * m23 + n13 * m33,
            n21 * m11 + n22 * m21 + n23 * m31, n21 * m12 + n22 * m22 + n23 * m32, n21 * m13 + n22 * m23 + n23 * m33,
            n31 * m11 + n32 * m21 + n33 * m31, n31 * m12 + n32 * m22 + n33 * m32, n31 * m13 + n32 * m23 + n33 * m33]
  | _, _ => none

inductive LatErr | dims | nontrivial | transform deriving Repr, DecidableEq

structure LatElem (α : Type) where
  index : List Int
  transl : V3 α
  fill : Option Nat          -- `none` = the element is filled with the lattice cell's own universe (material kept)
  filltr : List α

/-- `develop_lattice`: `base` = the lattice vectors, `bounds`/`spec` = the FILL array, `univ` = the universe the
lattice cell belongs to, `filltr` = its FILL transformation (12 numbers), `trcl` = its TRCL -/
def developLattice (base : List (V3 α)) (bounds : List (Int × Int)) (spec : List Nat) (univ : Nat)
    (filltr trcl : Option (List α)) : Except LatErr (List (LatElem α)) :=
  let check : Except LatErr Unit :=
    if base.length != bounds.length then
      if base.length != latDims bounds then .error .dims
      else
        -- the surplus ranges (counted from the end) must be trivial
        let nMissing := base.length - bounds.length   -- (negative in Python: the loop body never runs)
        let surplus := (bounds.reverse.take nMissing)
        if surplus.any (fun r => r.1 != r.2) then .error .nontrivial else .ok ()
    else .ok ()
  match check with
  | .error e => .error e
  | .ok () =>
    (latItems bounds spec).filter (·.2 != 0) |>.mapM fun (idx, u) =>
      let t := latticeVector base idx
      let trnsf : List α := [t.x, t.y, t.z, 1, 0, 0, 0, 1, 0, 0, 0, 1]
      let nf : Option (List α) := match filltr with | some f => composeTr f trnsf | none => some trnsf
      let nf : Option (List α) := match trcl, filltr with
        | some tc, none => nf.bind fun x => composeTr tc x
        | _, _ => nf
      match nf with
      | some x => .ok { index := idx, transl := t, fill := if u == univ then none else some u, filltr := x }
      | none => .error .transform
end

end T4V
