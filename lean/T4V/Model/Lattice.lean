import T4V.Num
/-!
# `Kernel/Volume/Lattice.py` (model): index enumeration, array lookup, lattice vectors
-/
namespace T4V

def rangeIncl (lo hi : Int) : List Int := (List.range (hi - lo + 1).toNat).map fun (i : Nat) => lo + Int.ofNat i

/-- `LatticeBounds.indices._indices`, argument = the bounds **reversed** (the Python code peels off the
last range: outer loop over the last index, inner recursion over the others) -/
def indicesRev : List (Int × Int) → List (List Int)
  | [] => []                                            -- IndexError in the Python code
  | [(lo, hi)] => (rangeIncl lo hi).map fun x => [x]
  | (lo, hi) :: rest => (rangeIncl lo hi).flatMap fun e => (indicesRev rest).map fun heads => heads ++ [e]

/-- `LatticeBounds.indices` -/
def latIndices (bounds : List (Int × Int)) : List (List Int) := indicesRev bounds.reverse

/-- `LatticeBounds.size` (a product; may be ≤ 0 for reversed ranges) -/
def latSize (bounds : List (Int × Int)) : Int := bounds.foldl (fun x y => x * (y.2 - y.1 + 1)) 1

/-- `LatticeBounds.dims`: number of non-trivial ranges -/
def latDims (bounds : List (Int × Int)) : Nat := (bounds.filter fun b => b.1 != b.2).length

/-- `LatticeSpec.items`: indices zipped with the fill array -/
def latItems {β} (bounds : List (Int × Int)) (spec : List β) : List (List Int × β) := (latIndices bounds).zip spec

section
variable {α : Type} [Add α] [Sub α] [Mul α] [Div α] [Neg α] [OfNat α 0] [OfNat α 1]

def intToScalar (i : Int) : α :=
  let n : α := (List.range i.natAbs).foldl (fun acc _ => acc + 1) 0
  if i < 0 then -n else n

/-- `latticeVector`: Σ index_k · base_k (zip: surplus indices are ignored) -/
def latticeVector (base : List (V3 α)) (index : List Int) : V3 α :=
  (index.zip base).foldl (fun acc p => acc.add (V3.smul (intToScalar p.1) p.2)) V3.zero

/-- `squareLatticeReciprocalVecs`: per pair of planes ((p₁, n₁), side₁), ((p₂, _), _):
`n / (n · (p₁ − p₂))` with `n = −n₁` when the first-listed reference is positive -/
def squareReciprocal : List ((V3 α × V3 α) × Int) → Option (List (V3 α))
  | [] => some []
  | ((p1, n1), s1) :: ((p2, _), _) :: rest =>
      let n := if s1 == 1 then V3.smul (-1) n1 else n1
      let dist := (p1.sub p2).dot n
      (squareReciprocal rest).map fun r => V3.smul (1 / dist) n :: r
  | [_] => none

/-- `latticeReciprocal`: dual basis of one, two or three vectors -/
def latticeReciprocal : List (V3 α) → Option (List (V3 α))
  | [v] => some [V3.smul (1 / v.dot v) v]
  | [v1, v2] =>
      let a := v1.norm2; let b := v2.norm2; let c := v1.dot v2
      let den := a * b - c * c
      some [(V3.smul (b / den) v1).add (V3.smul (-c / den) v2), (V3.smul (a / den) v2).add (V3.smul (-c / den) v1)]
  | [v1, v2, v3] =>
      let c12 := v1.cross v2; let c23 := v2.cross v3; let c31 := v3.cross v1
      let norm := (1 + 1 + 1) / (v1.dot c23 + v2.dot c31 + v3.dot c12)
      some [V3.smul norm c23, V3.smul norm c31, V3.smul norm c12]
  | _ => none

/-- `squareLatticeBaseVectors` -/
def squareBaseVectors (surfs : List ((V3 α × V3 α) × Int)) : Option (List (V3 α)) :=
  if surfs.length != 2 && surfs.length != 4 && surfs.length != 6 then none
  else (squareReciprocal surfs).bind latticeReciprocal
end

end T4V
