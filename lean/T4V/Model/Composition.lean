import T4V.Text.NormFloat
/-!
# Material cards → the COMPOSITION block (model)

`MIP.geom.composition.get_material_composition` (the dictionary of M cards), `CCompositionMCNP.__init__` (pairs),
`ConvertIsotope.convert_isotope`, `compositionConversionMCNPToT4` (sign consistency, names, `str_fabs`,
`normalize_float`), `constructCompositionT4` (one composition per material and density literal of a converted cell)
and `writeT4Composition` (the lines of the block).  Import-free apart from the `normalize_float` model.

Modelled alphabet: ZAIDs made of decimal digits (Python's `int()` also accepts signs, blanks and underscores);
anything else is the error class `value`.  The amounts of a POINT_WISE composition are the floating-point results of
`rescale_fractions` (model: `T4V.rescaleFractions`, compared numerically by its own stream): here they are the
opaque token `*`.
-/
namespace T4V.CM
open T4V

inductive CErr | index | value | attr | mixed | zeroDiv
deriving Repr, DecidableEq

def CErr.name : CErr → String
  | .index => "IndexError" | .value => "ValueError" | .attr => "AttributeError" | .mixed => "ValueError"
  | .zeroDiv => "ZeroDivisionError"

/-- `s.split('.')[0]` -/
def beforeDot (s : List Char) : List Char := s.takeWhile (· != '.')

/-- `CCompositionMCNP.__init__`: keyword entries (containing `=`) are skipped where a ZAID is expected; a ZAID
without a following token raises IndexError -/
def pairs : List (List Char) → Except CErr (List (List Char × List Char))
  | [] => .ok []
  | [z] => if z.contains '=' then .ok [] else .error .index
  | z :: f :: r =>
      if z.contains '=' then pairs (f :: r)
      else match pairs r with
        | .ok ps => .ok ((beforeDot z, f) :: ps)
        | .error e => .error e

/-- Python's `int()` on a string of decimal digits -/
def pyInt? (s : List Char) : Option Nat :=
  if s.isEmpty || !s.all isDig then none else some (digitsNat s)

/-- the table of element symbols, Z = 1 … 118 (`EIsotopeNameElement`) -/
def symbols : List String :=
  ["H", "HE", "LI", "BE", "B", "C", "N", "O", "F", "NE", "NA", "MG", "AL", "SI", "P", "S", "CL", "AR", "K", "CA",
   "SC", "TI", "V", "CR", "MN", "FE", "CO", "NI", "CU", "ZN", "GA", "GE", "AS", "SE", "BR", "KR", "RB", "SR", "Y",
   "ZR", "NB", "MO", "TC", "RU", "RH", "PD", "AG", "CD", "IN", "SN", "SB", "TE", "I", "XE", "CS", "BA", "LA", "CE",
   "PR", "ND", "PM", "SM", "EU", "GD", "TB", "DY", "HO", "ER", "TM", "YB", "LU", "HF", "TA", "W", "RE", "OS", "IR",
   "PT", "AU", "HG", "TL", "PB", "BI", "PO", "AT", "RN", "FR", "RA", "AC", "TH", "PA", "U", "NP", "PU", "AM", "CM",
   "BK", "CF", "ES", "FM", "MD", "NO", "LR", "RF", "DB", "SG", "BH", "HS", "MT", "DS", "RG", "CN", "NH", "FL", "MC",
   "LV", "TS", "OG"]

/-- `convert_isotope`: (Z, A) of a ZAID — the last three characters are the mass number, the others the atomic
number, which must be one of 1 … 118 -/
def isoParts (zaid : List Char) : Except CErr (Nat × Nat) :=
  let id := beforeDot zaid
  let n := id.length
  match pyInt? (id.drop (n - 3)) with
  | none => .error .value
  | some a =>
    match pyInt? (id.take (n - 3)) with
    | none => .error .value
    | some z => if z == 0 || z > 118 then .error .attr else .ok (z, a)

/-- the TRIPOLI-4 name: symbol ++ mass number, mass number 0 = the natural element -/
def isoName (z a : Nat) : String :=
  symbols.getD (z - 1) "?" ++ (if a == 0 then "-NAT" else toString a)

def isNeg (f : List Char) : Bool := (f.dropWhile (· == ' ')).head? == some '-'

/-- `str_fabs` on a token without blanks -/
def strFabs (f : List Char) : List Char := match f with | '-' :: r => r | _ => f

structure Abund where
  isotopes : List (String × List Char)      -- name, amount as written (normalised absolute value)
  atomFracs : Bool
deriving Repr, DecidableEq

/-- the loop of `compositionConversionMCNPToT4` over the pairs of one card: entry by entry the sign test (against
the sign of the first entry), then the name -/
def convLoop (pos : Bool) : List (List Char × List Char) → Except CErr (List (String × List Char))
  | [] => .ok []
  | (zaid, f) :: r =>
      if (!isNeg f) != pos then .error .mixed else
      match isoParts zaid with
      | .error e => .error e
      | .ok (z, a) =>
        -- `normalize_float('')` raises IndexError (the amount `-`)
        if (strFabs f).isEmpty then .error .index else
        match convLoop pos r with
        | .error e => .error e
        | .ok ns => .ok ((isoName z a, normalizeFloat (strFabs f)) :: ns)

/-- one card: pairs → abundances (`atom_fracs` is `None` for a card without entries, which every later test reads as
false) -/
def convCard : List (List Char × List Char) → Except CErr Abund
  | [] => .ok { isotopes := [], atomFracs := false }
  | (z, f) :: r =>
      match convLoop (!isNeg f) ((z, f) :: r) with
      | .error e => .error e
      | .ok ns => .ok { isotopes := ns, atomFracs := !isNeg f }

/-- `get_material_composition`: a later card with the same number replaces the contents, the position of the first
one is kept (`OrderedDict`) -/
def cardDict : List (Nat × List (List Char)) → List (Nat × List (List Char))
  | [] => []
  | (k, v) :: r =>
      let rest := cardDict r
      match rest.find? (·.1 == k) with
      | some (_, v') => (k, v') :: rest.filter (·.1 != k)
      | none => (k, v) :: rest

/-- what `constructCompositionT4` reads of a cell of the final dictionary -/
structure CCell where
  live : Bool                -- importance > 0, universe 0, not filled
  mat : Nat
  density : List Char        -- the literal of the cell card
deriving Repr, DecidableEq

/-- sign of `float(normalize_float(density))`: `some true` = negative (a mass density) -/
def densNeg? (d : List Char) : Option Bool :=
  match parseRealLit (normalizeFloat d) with
  | none => none
  | some l => some (l.value.1 < 0)

structure Comp where
  kind : String              -- DENSITY | POINT_WISE
  name : String              -- m<k>
  density : List Char        -- normalised literal
  isotopes : List (String × List Char)
  nbAtom : Bool
deriving Repr, DecidableEq

/-- the compositions of one material: one per distinct density literal among the live cells that use it, in the
order of the cells -/
def compsOf (key : Nat) (ab : Abund) : List CCell → List (List Char) → Except CErr (List Comp)
  | [], _ => .ok []
  | c :: r, seen =>
      if !c.live || c.mat != key || seen.contains c.density then compsOf key ab r seen else
      match densNeg? c.density with
      | none => .error .value
      | some neg =>
        -- `rescale_fractions` reads every amount as a float and divides by their sum
        let vals := ab.isotopes.map fun (_, a) => (parseRealLit (normalizeFloat a)).map (·.value.1)
        if !neg && ab.atomFracs && vals.any (·.isNone) then .error .value else
        if !neg && ab.atomFracs && vals.all (· == some 0) then .error .zeroDiv else
        let comp : Comp :=
          if neg then { kind := "DENSITY", name := "m" ++ toString key, density := normalizeFloat c.density,
                        isotopes := ab.isotopes, nbAtom := ab.atomFracs }
          else { kind := "POINT_WISE", name := "m" ++ toString key, density := normalizeFloat c.density,
                 isotopes := if ab.atomFracs then ab.isotopes.map fun (n, _) => (n, ['*']) else [],
                 nbAtom := ab.atomFracs }
        match compsOf key ab r (c.density :: seen) with
        | .error e => .error e
        | .ok cs => .ok (comp :: cs)

/-- `parseMCNPComposition`: the pairs of every card, before anything is converted -/
def parseAll : List (Nat × List (List Char)) → Except CErr (List (Nat × List (List Char × List Char)))
  | [] => .ok []
  | (k, toks) :: r =>
      match pairs toks with
      | .error e => .error e
      | .ok ps => match parseAll r with
        | .error e => .error e
        | .ok xs => .ok ((k, ps) :: xs)

/-- `compositionConversionMCNPToT4`: every card is converted, used or not -/
def convAll : List (Nat × List (List Char × List Char)) → Except CErr (List (Nat × Abund))
  | [] => .ok []
  | (k, ps) :: r =>
      match convCard ps with
      | .error e => .error e
      | .ok ab => match convAll r with
        | .error e => .error e
        | .ok xs => .ok ((k, ab) :: xs)

/-- `constructCompositionT4`: materials in card order, only those with at least one composition -/
def construct (cells : List CCell) : List (Nat × Abund) → Except CErr (List (Nat × List Comp))
  | [] => .ok []
  | (k, ab) :: r =>
      match compsOf k ab cells [] with
      | .error e => .error e
      | .ok cs => match construct cells r with
        | .error e => .error e
        | .ok xs => .ok (if cs.isEmpty then xs else (k, cs) :: xs)

/-- the words of the header line of a composition -/
def headerWords (c : Comp) : List String :=
  let nm := c.name ++ "_" ++ String.ofList c.density
  if c.kind == "POINT_WISE" then ["POINT_WISE", "300", nm, toString c.isotopes.length]
  else ["DENSITY", "300", nm, String.ofList (strFabs c.density)] ++ (if c.nbAtom then ["NB_ATOM"] else []) ++
       [toString c.isotopes.length]

/-- the lines `writeT4Composition` writes for one composition (as lists of words; the writer joins them with single
blanks, two where the NB_ATOM flag is absent, and indents nuclide lines by two) -/
def compWordLines (c : Comp) : List (List String) :=
  headerWords c ::
    (if c.isotopes.isEmpty then [[]] else c.isotopes.map fun (n, a) => [n, String.ofList a])

/-- all lines of the block between `COMPOSITION` and `END_COMPOSITION`, as words -/
def blockWordLines (mats : List (Nat × List Comp)) : List (List String) :=
  let comps := mats.flatMap (·.2)
  [toString (comps.length + 1)] :: comps.flatMap compWordLines ++ [["POINT_WISE", "300", "m0", "1"], ["HE4", "1E-30"], []]

/-- the header line as `writeT4Composition` formats it (two blanks where the NB_ATOM flag is absent) -/
def headerText (c : Comp) : String :=
  let nm := c.name ++ "_" ++ String.ofList c.density
  if c.kind == "POINT_WISE" then "POINT_WISE" ++ " " ++ "300" ++ " " ++ nm ++ " " ++ toString c.isotopes.length
  else "DENSITY" ++ " " ++ "300" ++ " " ++ nm ++ " " ++ String.ofList (strFabs c.density) ++ " " ++
       (if c.nbAtom then "NB_ATOM" else "") ++ " " ++ toString c.isotopes.length

def nuclideText (n : String) (a : List Char) : String := "" ++ " " ++ "" ++ " " ++ n ++ " " ++ String.ofList a

/-- the text lines of one composition: the header, then one indented line per nuclide (a line of two blanks when
there is none) -/
def compTextLines (c : Comp) : List String :=
  headerText c :: (if c.isotopes.isEmpty then ["" ++ " " ++ "" ++ " " ++ ""] else c.isotopes.map fun (n, a) => nuclideText n a)

/-- the text between `COMPOSITION` and `END_COMPOSITION` -/
def blockTextLines (mats : List (Nat × List Comp)) : List String :=
  let comps := mats.flatMap (·.2)
  toString (comps.length + 1) :: comps.flatMap compTextLines ++
    ["POINT_WISE" ++ " " ++ "300" ++ " " ++ "m0" ++ " " ++ "1", "" ++ " " ++ "" ++ " " ++ "HE4" ++ " " ++ "1E-30", ""]

/-- the whole pipeline on the M cards and the cells of the final dictionary -/
def run (cards : List (Nat × List (List Char))) (cells : List CCell) : Except CErr (List String) :=
  match parseAll (cardDict cards) with
  | .error e => .error e
  | .ok pss => match convAll pss with
    | .error e => .error e
    | .ok abs => match construct cells abs with
      | .error e => .error e
      | .ok mats => .ok (blockTextLines mats)

end T4V.CM
