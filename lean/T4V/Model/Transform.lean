import T4V.Model.Surface
import T4V.Spec.MCNP
/-!
# Coordinate transformations applied to surfaces (model): `Transformation.transformation`,
`MIP/geom/transforms.py` (`transform_point`, `transform_vector`), `TransformationQuad.py`

A transformation is the 12 numbers `(O, B)` of a TR card after `normalize_transform`; `Motion` is
the same record.  `transformSurf` = `transformation(trpl, surface)`.
-/
namespace T4V

section
variable {α : Type} [Add α] [Sub α] [Mul α] [Div α] [Neg α] [OfNat α 0] [OfNat α 1]
  [LT α] [DecidableLT α] [BEq α] [Transc α]

/-- `transform_vector`: `(b1 x + b4 y + b7 z, …)` -/
def trVector (m : Motion α) (v : V3 α) : V3 α :=
  ⟨m.b.r1.x * v.x + m.b.r2.x * v.y + m.b.r3.x * v.z,
   m.b.r1.y * v.x + m.b.r2.y * v.y + m.b.r3.y * v.z,
   m.b.r1.z * v.x + m.b.r2.z * v.y + m.b.r3.z * v.z⟩

/-- `transform_point` -/
def trPoint (m : Motion α) (p : V3 α) : V3 α :=
  let v := trVector m p
  ⟨m.o.x + v.x, m.o.y + v.y, m.o.z + v.z⟩

def half : α := 1 / two

/-- 4×4 matrices as functions of two indices; `mm4` = matrix product -/
def mm4 (a b : Nat → Nat → α) : Nat → Nat → α :=
  fun i j => a i 0 * b 0 j + a i 1 * b 1 j + a i 2 * b 2 j + a i 3 * b 3 j

/-- `special_quadric_to_quadric` -/
def sqToGq (ps : List α) : Option (List α) :=
  match ps with
  | [a, b, c, d, e, f, g, x, y, z] =>
      some [a, b, c, 0, 0, 0, two * d - two * a * x, two * e - two * b * y, two * f - two * c * z,
            a * (x * x) + b * (y * y) + c * (z * z) - two * (d * x + e * y + f * z) + g]
  | _ => none

/-- `transformation_quad`: `A' = Mᵀ A M` with `M = R·Q` (`R` = the matrix, `Q` = translation by `−O`) -/
def transformQuad (q : List α) (m : Motion α) : Option (List α) :=
  match q with
  | [a, b, c, d, e, f, g, h, j, k] =>
      let am : Nat → Nat → α := fun i l =>
        match i, l with
        | 0, 0 => a | 0, 1 => d * half | 0, 2 => f * half | 0, 3 => g * half
        | 1, 0 => d * half | 1, 1 => b | 1, 2 => e * half | 1, 3 => h * half
        | 2, 0 => f * half | 2, 1 => e * half | 2, 2 => c | 2, 3 => j * half
        | 3, 0 => g * half | 3, 1 => h * half | 3, 2 => j * half | 3, 3 => k
        | _, _ => 0
      let rm : Nat → Nat → α := fun i l =>
        match i, l with
        | 0, 0 => m.b.r1.x | 0, 1 => m.b.r1.y | 0, 2 => m.b.r1.z
        | 1, 0 => m.b.r2.x | 1, 1 => m.b.r2.y | 1, 2 => m.b.r2.z
        | 2, 0 => m.b.r3.x | 2, 1 => m.b.r3.y | 2, 2 => m.b.r3.z
        | 3, 3 => 1
        | _, _ => 0
      let qm : Nat → Nat → α := fun i l =>
        match i, l with
        | 0, 0 => 1 | 1, 1 => 1 | 2, 2 => 1 | 3, 3 => 1
        | 0, 3 => -m.o.x | 1, 3 => -m.o.y | 2, 3 => -m.o.z
        | _, _ => 0
      let mmat := mm4 rm qm
      let mt : Nat → Nat → α := fun i l => mmat l i
      let at_ := mm4 mt (mm4 am mmat)
      some [at_ 0 0, at_ 1 1, at_ 2 2, at_ 0 1 * two, at_ 1 2 * two, at_ 0 2 * two,
            at_ 0 3 * two, at_ 1 3 * two, at_ 2 3 * two, at_ 3 3]
  | _ => none

/-- `transformation(trpl, surface)` -/
def transformSurf (m : Motion α) (s : MSurf α) : Option (MSurf α) :=
  match s.kind with
  | .sq => do
      let g ← sqToGq s.compl
      let g' ← transformQuad g m
      pure { s with kind := .gq, compl := g' }
  | .gq => do
      let g' ← transformQuad s.compl m
      pure { s with compl := g' }
  | _ => some { s with pt := trPoint m s.pt, ax := trVector m s.ax }

/-- a card carrying a transformation number -/
def convertCardTr (e1 e2 : α) (mn : String) (ps : List α) (m : Motion α) : Option (List (TSurf α × Int)) :=
  (cadOf e1 e2 mn ps).bind fun s => (transformSurf m s).bind convertSurf

/-- the implicit function a `SurfaceMCNP` of kind plane / sphere / cylinder / cone / quadric stands for,
in terms of its frame (point, axis) and complementary parameters; `tan2` = the squared tangent of the
half-angle for cones -/
def frameF (s : MSurf α) (tan2 : α) (p : V3 α) : Option α :=
  let d := p.sub s.pt
  match s.kind, s.compl with
  | .p, _ => some (s.ax.dot d)
  | .s, [r] => some (d.norm2 - sq r)
  | .c, [r] => some (d.norm2 * s.ax.norm2 - sq (d.dot s.ax) - sq r * s.ax.norm2)
  | .k, _ => some (d.norm2 * s.ax.norm2 - sq (d.dot s.ax) - tan2 * sq (d.dot s.ax))
  | .gq, q => evalQuadric q p
  | _, _ => none
end

end T4V
