import T4V.Text.LatticeArg
/-!
# Cell options (model): `ParseMCNPCell.parse_keywords`, `apply_but`, the `LIKE n BUT` loop of
`parse_one_cell`

Two layers:
* tokens → items (`groupTokens`): the keyword tests of `parse_keywords` in their order (`startswith
  'imp'`, `'fill' in`, `'lat' in`, `'trcl' in`, `'u' in`, `'rho' in`, `'mat' in`, anything else is
  skipped) with the arguments each keyword pops; the array form of FILL (`i1:i2 j1:j2 … u1 u2 …`, `parse_fill_kw` with
  `parse_ranges` and `expand_data_card(expected = number of elements, dtype = 'int')`) with plain numbers and the `nR`
  repetition (the other shorthands — `nI`, `xM`, `nJ`, `LOG` — are outside the model: `arrayShorthand`);
* items → record (`applyItems`): a left fold of assignments — the later keyword wins; importances are
  kept per particle, the later value of a particle wins.
`LIKE n BUT opts` is `apply_but`: the options of cell n followed by `opts`.
-/
namespace T4V

inductive Item where
  | imp (particles : List String) (v : String)
  | u (v : String)
  | mat (v : String)
  | rho (v : String)
  | lat (v : String)
  | fill (star : Bool) (univ : String) (params : List String)
  | fillArr (star : Bool) (ranges : List String) (univs : List String) (params : List String)
  | trcl (star : Bool) (params : List String)
deriving Repr, DecidableEq, Inhabited

/-- what a FILL keyword assigned: one universe, or index ranges with one universe per element -/
inductive FillVal where
  | simple (star : Bool) (univ : String) (params : List String)
  | arr (star : Bool) (ranges : List String) (univs : List String) (params : List String)
deriving Repr, DecidableEq, Inhabited

structure KW where
  imp : List (String × String) := []
  u : Option String := none
  mat : Option String := none
  rho : Option String := none
  lat : Option String := none
  fill : Option FillVal := none
  trcl : Option (Bool × List String) := none
deriving Repr, DecidableEq, Inhabited

/-- dictionary assignment `d[p] = v` on an association list (insertion order kept, as a Python dict) -/
def assoc (d : List (String × String)) (p v : String) : List (String × String) :=
  if d.any (·.1 == p) then d.map fun e => if e.1 == p then (p, v) else e else d ++ [(p, v)]

def KW.set (k : KW) : Item → KW
  | .imp ps v => { k with imp := ps.foldl (fun d p => assoc d p v) k.imp }
  | .u v => { k with u := some v }
  | .mat v => { k with mat := some v }
  | .rho v => { k with rho := some v }
  | .lat v => { k with lat := some v }
  | .fill s u ps => { k with fill := some (.simple s u ps) }
  | .fillArr s rs us ps => { k with fill := some (.arr s rs us ps) }
  | .trcl s ps => { k with trcl := some (s, ps) }

def applyFrom (k : KW) (is : List Item) : KW := is.foldl KW.set k
def applyItems (is : List Item) : KW := applyFrom {} is

/-- which record field an item assigns -/
inductive Field | imp | u | mat | rho | lat | fill | trcl deriving DecidableEq, Repr
def Item.field : Item → Field
  | .imp .. => .imp | .u .. => .u | .mat .. => .mat | .rho .. => .rho | .lat .. => .lat
  | .fill .. => .fill | .fillArr .. => .fill | .trcl .. => .trcl

def isSub (needle hay : List Char) : Bool :=
  match hay with
  | [] => needle.isEmpty
  | _ :: t => needle.isPrefixOf hay || isSub needle t

def contains (s sub : String) : Bool := isSub sub.toList s.toList

/-- `kw_list[-1][0] in '0123456789.+-'` -/
def numericLead (s : String) : Bool :=
  match s.toList with
  | c :: _ => "0123456789.+-".toList.contains c
  | [] => false          -- (an empty token cannot come out of `str.split()`)

inductive KwErr | pop | badLat
  | badRange                 -- `parse_ranges` raises (not two bounds, a bound that is not an integer)
  | arrayCount               -- not exactly as many universes as elements (`expected …`), or a token that is no number
  | arrayShorthand           -- a shorthand outside the model
deriving Repr, DecidableEq

/-- number of elements of the index ranges (`LatticeBounds.size`; may be ≤ 0 when a range runs backwards) -/
def rangesSize (rs : List String) : Except KwErr Int :=
  match LA.parseRanges (rs.map String.toList) with
  | .error _ => .error .badRange
  | .ok bs => .ok (bs.foldl (fun acc b => acc * (b.2 - b.1 + 1)) 1)

/-- one token of the universe list: a number, or `nR` / `R` repeating the last entry -/
inductive UTok | num | rep (n : Nat) | shorthand | bad
deriving Repr, DecidableEq

def isNumberText (cs : List Char) : Bool :=
  -- what `to_float` reads: [sign] digits [. digits] [exponent], at least one digit in the mantissa
  let t := match cs with | '+' :: r => r | '-' :: r => r | r => r
  let ip := t.takeWhile Char.isDigit
  let r1 := t.dropWhile Char.isDigit
  let (fr, r2) := match r1 with | '.' :: r => (r.takeWhile Char.isDigit, r.dropWhile Char.isDigit) | r => ([], r)
  (!(ip.isEmpty && fr.isEmpty)) &&
  (match r2 with
   | [] => true
   | e :: r =>
     let ex := match (if e == 'e' || e == 'd' then r else e :: r) with | '+' :: q => q | '-' :: q => q | q => q
     (e == 'e' || e == 'd' || e == '+' || e == '-') && !ex.isEmpty && ex.all Char.isDigit)

def classifyU (tok : String) : UTok :=
  let cs := tok.toList
  match cs.getLast? with
  | none => .bad
  | some last =>
    let body := cs.dropLast
    if last == 'r' then
      (if body.isEmpty then .rep 1 else if body.all Char.isDigit then .rep (String.ofList body).toNat! else .bad)
    else if last == 'i' || last == 'm' || last == 'j' || last == 'g' then .shorthand
    else if isNumberText cs then .num else .bad

/-- what `parse_keywords` is waiting for after the tokens read so far -/
inductive KwState where
  | idle
  | wantImp (particles : List String)          -- after `imp:…`
  | wantU | wantMat | wantRho | wantLat        -- after a one-argument keyword
  | fillFirst (star : Bool)                    -- after `fill` / `*fill`: the universe (or the first range)
  | fillNums (star : Bool) (univ : String) (acc : List String)   -- numeric arguments of FILL, greedy
  | fillRng (star : Bool) (ranges : List String)                 -- the index ranges of an array FILL
  | fillArr (star : Bool) (ranges : List String) (need : Int) (us : List String)   -- its universes, `need` expected
  | fillArrNums (star : Bool) (ranges : List String) (us : List String) (acc : List String)   -- then numbers, greedy
  | fillDrop (star : Bool) (ranges : List String)   -- ranges without elements: `del kw_list[-0:]` empties the list
  | trclNums (star : Bool) (acc : List String)                   -- numeric arguments of TRCL, greedy
deriving Repr, DecidableEq

/-- a keyword token read in state `idle` (the tests of `parse_keywords`, in their order) -/
def startKeyword (elt : String) : KwState :=
  if "imp".toList.isPrefixOf elt.toList then
    .wantImp (match elt.splitOn ":" with | _ :: tl => (":".intercalate tl).splitOn "," | [] => [""])
  else if contains elt "fill" then .fillFirst (contains elt "*")
  else if contains elt "lat" then .wantLat
  else if contains elt "trcl" then .trclNums (contains elt "*") []
  else if contains elt "u" then .wantU
  else if contains elt "rho" then .wantRho
  else if contains elt "mat" then .wantMat
  else .idle                                   -- any other token is skipped

/-- a token read while the numeric arguments of an array FILL are collected -/
def arrNums (star : Bool) (rs us : List String) (acc : List Item) (tok : String) (ns : List String := []) :
    Except KwErr (KwState × List Item) :=
  if numericLead tok then .ok (.fillArrNums star rs us (ns ++ [tok]), acc)
  else .ok (startKeyword tok, acc ++ [.fillArr star rs us ns])

/-- a token of the universe list (fewer than `need` entries so far) -/
def arrTok (star : Bool) (rs : List String) (need : Int) (us : List String) (acc : List Item) (tok : String) :
    Except KwErr (KwState × List Item) :=
  let after (us' : List String) : Except KwErr (KwState × List Item) :=
    if (us'.length : Int) < need then .ok (.fillArr star rs need us', acc)
    else if (us'.length : Int) == need then .ok (.fillArrNums star rs us' [], acc)
    else .error .arrayCount
  match classifyU tok with
  | .num => after (us ++ [tok])
  | .rep n => (match us.getLast? with | none => .error .arrayCount | some v => after (us ++ List.replicate n v))
  | .shorthand => .error .arrayShorthand
  | .bad => .error .arrayCount

/-- one token -/
def kwStep (st : KwState × List Item) (tok : String) : Except KwErr (KwState × List Item) :=
  match st with
  | (.idle, acc) => .ok (startKeyword tok, acc)
  | (.wantImp ps, acc) => .ok (.idle, acc ++ [.imp ps tok])
  | (.wantU, acc) => .ok (.idle, acc ++ [.u tok])
  | (.wantMat, acc) => .ok (.idle, acc ++ [.mat tok])
  | (.wantRho, acc) => .ok (.idle, acc ++ [.rho tok])
  | (.wantLat, acc) =>
      -- `parse_lat_kw`: the value must read as the integer 1 or 2 (checked when the keyword is met)
      if tok.toInt? == some 1 || tok.toInt? == some 2 then .ok (.idle, acc ++ [.lat tok]) else .error .badLat
  | (.fillFirst star, acc) => if contains tok ":" then .ok (.fillRng star [tok], acc) else .ok (.fillNums star tok [], acc)
  | (.fillRng star rs, acc) =>
      if contains tok ":" then .ok (.fillRng star (rs ++ [tok]), acc) else
      match rangesSize rs with
      | .error e => .error e
      | .ok need =>
        -- `expand_data_card(rest, expected = need)`: nothing is read when no element is expected
        if need ≤ 0 then (if need == 0 then .ok (.fillDrop star rs, acc) else .error .arrayCount)
        else arrTok star rs need [] acc tok
  | (.fillArr star rs need us, acc) => arrTok star rs need us acc tok
  | (.fillArrNums star rs us ns, acc) => arrNums star rs us acc tok ns
  | (.fillDrop star rs, acc) => .ok (.fillDrop star rs, acc)
  | (.fillNums star u ns, acc) =>
      if numericLead tok then .ok (.fillNums star u (ns ++ [tok]), acc)
      else .ok (startKeyword tok, acc ++ [.fill star u ns])
  | (.trclNums star ns, acc) =>
      if numericLead tok then .ok (.trclNums star (ns ++ [tok]), acc)
      else .ok (startKeyword tok, acc ++ [.trcl star ns])

def kwRun (st : KwState × List Item) : List String → Except KwErr (KwState × List Item)
  | [] => .ok st
  | t :: ts => match kwStep st t with | .ok st' => kwRun st' ts | .error e => .error e

/-- end of the option list: a keyword still waiting for its value is `list.pop()` on an empty list -/
def kwFinish (st : KwState × List Item) : Except KwErr (List Item) :=
  match st with
  | (.idle, acc) => .ok acc
  | (.fillNums star u ns, acc) => .ok (acc ++ [.fill star u ns])
  | (.trclNums star ns, acc) => .ok (acc ++ [.trcl star ns])
  | (.fillArrNums star rs us ns, acc) => .ok (acc ++ [.fillArr star rs us ns])
  | (.fillDrop star rs, acc) => .ok (acc ++ [.fillArr star rs [] []])
  | (.fillRng star rs, acc) =>
      -- ranges, then nothing: fine only when no element is expected
      (match rangesSize rs with
       | .error e => .error e
       | .ok need => if need == 0 then .ok (acc ++ [.fillArr star rs [] []]) else .error .arrayCount)
  | (.fillArr .., _) => .error .arrayCount
  | _ => .error .pop

/-- `parse_keywords` up to the assignment of the record: tokens in reading order -/
def groupTokens (toks : List String) : Except KwErr (List Item) :=
  match kwRun (.idle, []) toks with | .ok st => kwFinish st | .error e => .error e

def parseKeywords (toks : List String) : Except KwErr KW := (groupTokens toks).map applyItems

/-- `apply_but` on the option tokens -/
def applyBut (base but : List String) : List String := base ++ but
end T4V
