/-!
# Cell options (model): `ParseMCNPCell.parse_keywords`, `apply_but`, the `LIKE n BUT` loop of
`parse_one_cell`

Two layers:
* tokens → items (`groupTokens`): the keyword tests of `parse_keywords` in their order (`startswith
  'imp'`, `'fill' in`, `'lat' in`, `'trcl' in`, `'u' in`, `'rho' in`, `'mat' in`, anything else is
  skipped) with the arguments each keyword pops; the array form of FILL (`a:b …`) is outside the model;
* items → record (`applyItems`): a left fold of assignments — the later keyword wins; importances are
  kept per particle, the later value of a particle wins.
`LIKE n BUT opts` is `apply_but`: the options of cell n followed by `opts`.
-/
namespace T4V

inductive Item where
  | imp (particles : List String) (v : String)
  | u (v : String)
  | mat (v : String)
  | rho (v : String)
  | lat (v : String)
  | fill (star : Bool) (univ : String) (params : List String)
  | trcl (star : Bool) (params : List String)
deriving Repr, DecidableEq, Inhabited

structure KW where
  imp : List (String × String) := []
  u : Option String := none
  mat : Option String := none
  rho : Option String := none
  lat : Option String := none
  fill : Option (Bool × String × List String) := none
  trcl : Option (Bool × List String) := none
deriving Repr, DecidableEq, Inhabited

/-- dictionary assignment `d[p] = v` on an association list (insertion order kept, as a Python dict) -/
def assoc (d : List (String × String)) (p v : String) : List (String × String) :=
  if d.any (·.1 == p) then d.map fun e => if e.1 == p then (p, v) else e else d ++ [(p, v)]

def KW.set (k : KW) : Item → KW
  | .imp ps v => { k with imp := ps.foldl (fun d p => assoc d p v) k.imp }
  | .u v => { k with u := some v }
  | .mat v => { k with mat := some v }
  | .rho v => { k with rho := some v }
  | .lat v => { k with lat := some v }
  | .fill s u ps => { k with fill := some (s, u, ps) }
  | .trcl s ps => { k with trcl := some (s, ps) }

def applyFrom (k : KW) (is : List Item) : KW := is.foldl KW.set k
def applyItems (is : List Item) : KW := applyFrom {} is

/-- which record field an item assigns -/
inductive Field | imp | u | mat | rho | lat | fill | trcl deriving DecidableEq, Repr
def Item.field : Item → Field
  | .imp .. => .imp | .u .. => .u | .mat .. => .mat | .rho .. => .rho | .lat .. => .lat
  | .fill .. => .fill | .trcl .. => .trcl

def isSub (needle hay : List Char) : Bool :=
  match hay with
  | [] => needle.isEmpty
  | _ :: t => needle.isPrefixOf hay || isSub needle t

def contains (s sub : String) : Bool := isSub sub.toList s.toList

/-- `kw_list[-1][0] in '0123456789.+-'` -/
def numericLead (s : String) : Bool :=
  match s.toList with
  | c :: _ => "0123456789.+-".toList.contains c
  | [] => false          -- (an empty token cannot come out of `str.split()`)

def takeNumeric : List String → List String × List String
  | t :: rest => if numericLead t then let (a, b) := takeNumeric rest; (t :: a, b) else ([], t :: rest)
  | [] => ([], [])

inductive KwErr | pop | arrayFill | badLat deriving Repr, DecidableEq

/-- `parse_keywords` up to the assignment of the record: tokens in reading order -/
def groupTokens : Nat → List String → Except KwErr (List Item)
  | 0, _ => .ok []
  | _, [] => .ok []
  | fuel + 1, elt :: rest =>
    if "imp".toList.isPrefixOf elt.toList then
      match rest with
      | v :: rest' =>
          let parts := match elt.splitOn ":" with | _ :: tl => (":".intercalate tl).splitOn "," | [] => [""]
          (groupTokens fuel rest').map (Item.imp parts v :: ·)
      | [] => .error .pop
    else if contains elt "fill" then
      match rest with
      | first :: rest' =>
          if contains first ":" then .error .arrayFill else
          let (ps, rest'') := takeNumeric rest'
          (groupTokens fuel rest'').map (Item.fill (contains elt "*") first ps :: ·)
      | [] => .error .pop
    else if contains elt "lat" then
      match rest with
      | v :: rest' =>
          -- `parse_lat_kw`: the value must read as the integer 1 or 2 (checked when the keyword is met,
          -- even if a later LAT overrides it)
          if v.toInt? == some 1 || v.toInt? == some 2 then (groupTokens fuel rest').map (Item.lat v :: ·)
          else .error .badLat
      | [] => .error .pop
    else if contains elt "trcl" then
      let (ps, rest') := takeNumeric rest
      (groupTokens fuel rest').map (Item.trcl (contains elt "*") ps :: ·)
    else if contains elt "u" then
      match rest with
      | v :: rest' => (groupTokens fuel rest').map (Item.u v :: ·)
      | [] => .error .pop
    else if contains elt "rho" then
      match rest with
      | v :: rest' => (groupTokens fuel rest').map (Item.rho v :: ·)
      | [] => .error .pop
    else if contains elt "mat" then
      match rest with
      | v :: rest' => (groupTokens fuel rest').map (Item.mat v :: ·)
      | [] => .error .pop
    else groupTokens fuel rest

def parseKeywords (toks : List String) : Except KwErr KW := (groupTokens (toks.length + 1) toks).map applyItems

/-- `apply_but` on the option tokens -/
def applyBut (base but : List String) : List String := base ++ but
end T4V
