import T4V.Model.ToT4
/-!
# Layer B model, part 3: post-processing of the volume dictionary
(mirrors `Duplicates.remove_duplicate_surfaces / renumber_surfaces`,
`ConstructVolumeT4.remove_empty_volumes / remove_unused_volumes`).  Import-free.
-/
namespace T4V

/-- insertion into a sorted, duplicate-free list (Python sets, printed sorted) -/
def insertSorted (a : Nat) : List Nat → List Nat
  | [] => [a]
  | b :: r => if a < b then a :: b :: r else if a == b then b :: r else b :: insertSorted a r

def toSet (l : List Nat) : List Nat := l.foldl (fun acc a => insertSorted a acc) []

/-- one step of `remove_duplicate_surfaces`: state = (definitions seen ↦ kept id, kept ids, renumbering) -/
def dedupStep (acc : List (String × Nat) × List Nat × List (Nat × Nat)) (p : Nat × String) :
    List (String × Nat) × List Nat × List (Nat × Nat) :=
  match acc.1.find? (·.1 == p.2) with
  | some (_, k) => (acc.1, acc.2.1, acc.2.2 ++ [(p.1, k)])
  | none => (acc.1 ++ [(p.2, p.1)], acc.2.1 ++ [p.1], acc.2.2 ++ [(p.1, p.1)])

/-- `remove_duplicate_surfaces` on (id, definition-key) pairs: ids are visited in increasing order
and the first surface with a given definition wins.  Returns the kept ids and the renumbering. -/
def removeDuplicates (surfs : List (Nat × String)) : List Nat × List (Nat × Nat) :=
  let r := (surfs.mergeSort (fun a b => a.1 ≤ b.1)).foldl dedupStep ([], [], [])
  (r.2.1, r.2.2)

def renumOf (ren : List (Nat × Nat)) (s : Nat) : Nat := ((ren.find? (·.1 == s)).map (·.2)).getD s

/-- `renumber_surfaces` -/
def renumVol (ren : List (Nat × Nat)) (v : Vol) : Vol :=
  { v with pluses := toSet (v.pluses.map (renumOf ren)), minuses := toSet (v.minuses.map (renumOf ren)) }

def renumberVols (ren : List (Nat × Nat)) (vols : List (Nat × Vol)) : List (Nat × Vol) :=
  vols.map fun p => (p.1, renumVol ren p.2)

def Vol.empty (v : Vol) : Bool := v.pluses.any (v.minuses.contains ·)

/-- one round of `remove_empty_volumes`: process the `toRemove` keys, then recompute -/
def removeEmptyRound (unionIds : Nat × Nat) (vols : List (Nat × Vol)) (toRemove : List Nat) :
    List (Nat × Vol) × List Nat :=
  -- pass 1: delete or neutralise
  let step (acc : List (Nat × Vol) × List Nat) (k : Nat) :=
    let (vs, removed) := acc
    match dictGet? vs k with
    | none => acc
    | some v =>
      match v.ops with
      | some (.union, _) =>
          (vs.map fun p => if p.1 == k then (k, { v with pluses := [unionIds.1], minuses := [unionIds.2] }) else p, removed)
      | _ => (vs.filter (·.1 != k), removed ++ [k])
  toRemove.foldl step (vols, [])

/-- after a round: intersections with a removed operand are queued, unions lose removed operands -/
def afterRound (vols : List (Nat × Vol)) (removed : List Nat) : List (Nat × Vol) × List Nat :=
  let vols' := vols.map fun (k, v) =>
    match v.ops with
    | some (.union, ids) =>
        let ids' := ids.filter (!removed.contains ·)
        (k, { v with ops := if ids'.isEmpty then none else some (.union, ids') })
    | _ => (k, v)
  let queue := vols.filterMap fun (k, v) =>
    match v.ops with
    | some (.inter, ids) => if ids.any (removed.contains ·) then some k else none
    | _ => none
  (vols', queue)

/-- `remove_empty_volumes` (the `removed` set accumulates over rounds) -/
def removeEmpty (unionIds : Nat × Nat) (vols : List (Nat × Vol)) : List (Nat × Vol) :=
  let rec loop : Nat → List (Nat × Vol) → List Nat → List Nat → List (Nat × Vol)
    | 0, vs, _, _ => vs
    | fuel + 1, vs, queue, removed =>
        if queue.isEmpty then vs else
        let (vs1, rem1) := removeEmptyRound unionIds vs queue
        let removed' := removed ++ rem1
        let (vs2, queue') := afterRound vs1 removed'
        loop fuel vs2 queue' removed'
  loop (vols.length + 2) vols ((vols.filter (·.2.empty)).map (·.1)) []

/-- `remove_unused_volumes`: virtual volumes referenced by nobody are deleted (once) -/
def removeUnused (vols : List (Nat × Vol)) : List (Nat × Vol) :=
  let used := vols.flatMap fun (_, v) => match v.ops with | some (_, ids) => ids | none => []
  vols.filter fun (k, v) => !(v.fictive && !used.contains k)

/-- the post-processing of `convertMCNPGeometry` -/
def postProcess (dedup : Bool) (surfs : List (Nat × String)) (unionIds : Nat × Nat)
    (vols : List (Nat × Vol)) : List Nat × List (Nat × Vol) :=
  if dedup then
    let (kept, ren) := removeDuplicates surfs
    -- the auxiliary union planes follow the renumbering, too
    let u' := (renumOf ren unionIds.1, renumOf ren unionIds.2)
    (kept, removeUnused (removeEmpty u' (renumberVols ren vols)))
  else (surfs.map (·.1), removeUnused (removeEmpty unionIds vols))

end T4V
