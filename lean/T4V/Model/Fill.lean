/-!
# FILL (model): `CellConversion.pot_fill`

Structure only: which new cells `pot_fill` creates for a filled level-0 cell, in which order, with which
provenance (`idorigin`), material and density.  The geometry of a new cell is
`container ∧ (filler leaf moved by the FILL transformation, or by the container's TRCL when the FILL has
none)`; its meaning is given by `FLeaf.contains` for abstract per-cell regions `inCell` and per-container
frame maps `move`.
-/
namespace T4V

structure FCell where
  id : Nat
  univ : Nat
  fill : Option Nat := none
  mat : String := "0"
  rho : String := ""
  filltr : Option Nat := none   -- the FILL transformation (a token standing for its twelve numbers), if any
  trcl : List Nat := []         -- the TRCL transformations of the cell, in the order they are applied
deriving Repr, DecidableEq, Inhabited

/-- a cell created by `pot_fill` (or an unfilled cell itself, `path = []`) -/
structure FLeaf where
  base : Nat                 -- the unfilled cell at the bottom of the chain
  path : List Nat            -- containers, innermost first
  origin : List (Nat × Nat)  -- `idorigin`
  mat : String
  rho : String
  moves : List Nat := []     -- the transformations applied to the base cell, in the order of application
deriving Repr, DecidableEq, Inhabited

/-- **which transformations place the filling universe in container `c`**: the FILL transformation when there is
one — the TRCL of the cell is then disregarded — and otherwise the TRCLs of the container, in their order -/
def FCell.frameTrs (c : FCell) : List Nat :=
  match c.filltr with
  | some t => [t]
  | none => c.trcl

/-- wrap a leaf of the filling universe into container `c` -/
def FLeaf.wrap (l : FLeaf) (c : FCell) : FLeaf :=
  { l with path := l.path ++ [c.id], moves := l.moves ++ c.frameTrs,
           origin := l.origin ++ [((match l.origin with | (a, _) :: _ => a | [] => l.base), c.id)] }

/-- `pot_fill(key)`: `none` when the fuel (nesting depth) runs out or the universe is empty/unknown -/
def fillCells (cells : List FCell) : Nat → FCell → Option (List FLeaf)
  | 0, _ => none
  | fuel + 1, c =>
    match c.fill with
    | none => some [{ base := c.id, path := [], origin := [], mat := c.mat, rho := c.rho }]
    | some u =>
        ((cells.filter (·.univ == u)).mapM (fillCells cells fuel)).map fun ls => ls.flatten.map (·.wrap c)

section
variable {P : Type}

/-- meaning of a leaf: the point, expressed successively in the frames of the containers (outermost
first), lies in every container and finally in the base cell -/
def containsPath (inCell : Nat → P → Bool) (move : Nat → P → P) (base : Nat) : List Nat → P → Bool
  | [], p => inCell base p
  | c :: inner, p => inCell c p && containsPath inCell move base inner (move c p)

def FLeaf.contains (inCell : Nat → P → Bool) (move : Nat → P → P) (l : FLeaf) (p : P) : Bool :=
  containsPath inCell move l.base l.path.reverse p
end

end T4V
