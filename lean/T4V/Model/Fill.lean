/-!
# FILL (model): `CellConversion.pot_fill`

Structure only: which new cells `pot_fill` creates for a filled level-0 cell, in which order, with which
provenance (`idorigin`), material and density.  The geometry of a new cell is
`container ∧ (filler leaf moved by the FILL transformation, or by the container's TRCL when the FILL has
none)`; its meaning is given by `FLeaf.contains` for abstract per-cell regions `inCell` and per-container
frame maps `move`.
-/
namespace T4V

structure FCell where
  id : Nat
  univ : Nat
  fill : Option Nat := none
  mat : String := "0"
  rho : String := ""
deriving Repr, DecidableEq, Inhabited

/-- a cell created by `pot_fill` (or an unfilled cell itself, `path = []`) -/
structure FLeaf where
  base : Nat                 -- the unfilled cell at the bottom of the chain
  path : List Nat            -- containers, innermost first
  origin : List (Nat × Nat)  -- `idorigin`
  mat : String
  rho : String
deriving Repr, DecidableEq, Inhabited

/-- wrap a leaf of the filling universe into container `c` -/
def FLeaf.wrap (l : FLeaf) (c : FCell) : FLeaf :=
  { l with path := l.path ++ [c.id],
           origin := l.origin ++ [((match l.origin with | (a, _) :: _ => a | [] => l.base), c.id)] }

/-- `pot_fill(key)`: `none` when the fuel (nesting depth) runs out or the universe is empty/unknown -/
def fillCells (cells : List FCell) : Nat → FCell → Option (List FLeaf)
  | 0, _ => none
  | fuel + 1, c =>
    match c.fill with
    | none => some [{ base := c.id, path := [], origin := [], mat := c.mat, rho := c.rho }]
    | some u =>
        ((cells.filter (·.univ == u)).mapM (fillCells cells fuel)).map fun ls => ls.flatten.map (·.wrap c)

section
variable {P : Type}

/-- meaning of a leaf: the point, expressed successively in the frames of the containers (outermost
first), lies in every container and finally in the base cell -/
def containsPath (inCell : Nat → P → Bool) (move : Nat → P → P) (base : Nat) : List Nat → P → Bool
  | [], p => inCell base p
  | c :: inner, p => inCell c p && containsPath inCell move base inner (move c p)

def FLeaf.contains (inCell : Nat → P → Bool) (move : Nat → P → P) (l : FLeaf) (p : P) : Bool :=
  containsPath inCell move l.base l.path.reverse p
end

end T4V
