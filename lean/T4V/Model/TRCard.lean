import T4V.Num
import T4V.Model.Macro
/-!
# TR cards (model): `Transformation.normalize_transform`, `normalize_matrix`, `normalize_matrix3/5/6`,
`adjust_matrix`, `is_matrix_rowwise`

Entries are `Option α`: `none` = a `J` placeholder (or an entry not given).  Matrices are lists of nine
entries, row-major.  The warning of `adjust_matrix` (non-orthogonal input) is not modelled.
-/
namespace T4V

section
variable {α : Type} [Add α] [Sub α] [Mul α] [Div α] [Neg α] [OfNat α 0] [OfNat α 1]
  [LT α] [DecidableLT α] [BEq α] [Transc α]

inductive TrErr | mMinusOne | malformed | zeroDivision deriving Repr, DecidableEq

def identity9 : List α := [1, 0, 0, 0, 1, 0, 0, 0, 1]

def rows3 {β} (m : List β) : Option (List β × List β × List β) :=
  match m with
  | [a, b, c, d, e, f, g, h, i] => some ([a, b, c], [d, e, f], [g, h, i])
  | _ => none

def transpose9 {β} (m : List β) : Option (List β) :=
  match m with
  | [a, b, c, d, e, f, g, h, i] => some [a, d, g, b, e, h, c, f, i]
  | _ => none

def v3? (l : List (Option α)) : Option (V3 α) :=
  match l with
  | [some x, some y, some z] => some ⟨x, y, z⟩
  | _ => none

def row9 (v : V3 α) : List (Option α) := [some v.x, some v.y, some v.z]

/-- `normalize_matrix6`, rows given: the missing row is the vector product of the two that follow it
cyclically -/
def normMatrix6 (m : List (Option α)) : Option (List (Option α)) := do
  let (r0, r1, r2) ← rows3 m
  let missing (r : List (Option α)) : Bool := match r with | none :: _ => true | _ => false
  if missing r0 then
    let a ← v3? r1; let b ← v3? r2
    pure (row9 (a.cross b) ++ r1 ++ r2)
  else if missing r1 then
    let a ← v3? r2; let b ← v3? r0
    pure (r0 ++ row9 (a.cross b) ++ r2)
  else if missing r2 then
    let a ← v3? r0; let b ← v3? r1
    pure (r0 ++ r1 ++ row9 (a.cross b))
  else none

/-- `normalize_matrix3`, one row given -/
def normMatrix3 (m : List (Option α)) : Option (List (Option α)) := do
  let (r0, r1, r2) ← rows3 m
  let given (r : List (Option α)) : Bool := match r with | some _ :: _ => true | _ => false
  let complete (row1 : V3 α) : Option (V3 α × V3 α) := do
    let thr : α := 1 - 1 / (((1:α)+1+1+1+1) * (1+1) * (((1:α)+1+1+1+1) * (1+1)) * (((1:α)+1+1+1+1) * (1+1)))  -- 0.999
    let e2 : V3 α := if thr < row1.x then ⟨0, 1, 0⟩ else ⟨1, 0, 0⟩
    let proj ← renorm? row1 (e2.dot row1)
    let row2 ← renorm? (e2.sub proj)
    pure (row2, row1.cross row2)
  if given r0 then
    let a ← v3? r0; let (b, c) ← complete a
    pure (r0 ++ row9 b ++ row9 c)
  else if given r1 then
    let a ← v3? r1; let (b, c) ← complete a
    pure (row9 c ++ r1 ++ row9 b)
  else if given r2 then
    let a ← v3? r2; let (b, c) ← complete a
    pure (row9 b ++ row9 c ++ r2)
  else none

def rotL {β} (l : List β) (k : Nat) : List β := l.drop k ++ l.take k

/-- `normalize_matrix5`: one full row and one full column (Euler angles) -/
def normMatrix5 (m : List (Option α)) : Option (List (Option α)) := do
  let (r0, r1, r2) ← rows3 m
  let mt ← transpose9 m
  let (c0, c1, c2) ← rows3 mt
  let full (r : List (Option α)) : Bool := r.all Option.isSome
  let (iRow, row) ← if full r0 then some (0, r0) else if full r1 then some (1, r1) else if full r2 then some (2, r2) else none
  let (iCol, col) ← if full c0 then some (0, c0) else if full c1 then some (1, c1) else if full c2 then some (2, c2) else none
  let rowv ← v3? (rotL row iCol)
  let colv ← v3? (rotL col iRow)
  let sinB := Transc.sqrt (rowv.y * rowv.y + rowv.z * rowv.z)
  let cosB := rowv.x
  let (cosG, sinG, cosA, sinA) : α × α × α × α :=
    if sinB == 0 then (1, 0, 1, 0) else (-rowv.y / sinB, rowv.z / sinB, colv.y / sinB, colv.z / sinB)
  let fullM : List (List α) :=
    [[rowv.x, rowv.y, rowv.z],
     [colv.y, cosA * cosB * cosG - sinA * sinG, -cosG * sinA - cosA * cosB * sinG],
     [colv.z, cosA * sinG + cosB * cosG * sinA, cosA * cosG - cosB * sinA * sinG]]
  -- np.roll(full, shift=i_row, axis=0) then np.roll(…, shift=i_col, axis=1): rotate to the right
  let rollR {β} (l : List β) (k : Nat) : List β := rotL l ((l.length - k % l.length) % l.length)
  let rolled := (rollR fullM iRow).map fun r => rollR r iCol
  pure (rolled.flatten.map some)

/-- `is_matrix_rowwise`: the first row is fully given or fully missing -/
def isRowwise (m : List (Option α)) : Bool :=
  match m with
  | a :: b :: c :: _ => (a.isSome && b.isSome && c.isSome) || (a.isNone && b.isNone && c.isNone)
  | _ => false

/-- `normalize_matrix` -/
def normMatrix (matrix : List (Option α)) : Except TrErr (List (Option α)) :=
  let m9 := matrix ++ List.replicate (9 - matrix.length) none
  let n := (m9.filter Option.isSome).length
  let opt (r : Option (List (Option α))) : Except TrErr (List (Option α)) :=
    match r with | some x => .ok x | none => .error .zeroDivision
  if n == 9 then .ok matrix
  else if n == 0 then .ok (identity9.map some)
  else if n == 5 then opt (normMatrix5 m9)
  else if n == 3 then
    if isRowwise m9 then opt (normMatrix3 m9) else opt ((transpose9 m9).bind normMatrix3 |>.bind transpose9)
  else if n == 6 then
    if isRowwise m9 then opt (normMatrix6 m9) else opt ((transpose9 m9).bind normMatrix6 |>.bind transpose9)
  else .error .malformed

def vrow (l : List α) : Option (V3 α) := match l with | [x, y, z] => some ⟨x, y, z⟩ | _ => none

/-- `adjust_matrix`: renormalised rows, Gram–Schmidt on the columns, third column by vector product with
the sign of the original one, entries below `snap` in magnitude set to zero -/
def adjustMatrix (snap : α) (m : List α) : Option (List α) := do
  let (r0, r1, r2) ← rows3 m
  let a ← (vrow r0).bind renorm?; let b ← (vrow r1).bind renorm?; let c ← (vrow r2).bind renorm?
  let c0 : V3 α := ⟨a.x, b.x, c.x⟩; let c1 : V3 α := ⟨a.y, b.y, c.y⟩; let c2 : V3 α := ⟨a.z, b.z, c.z⟩
  let v0 := c0.dot c0
  let v01 := c0.dot c1
  let c1' ← renorm? ((V3.smul v0 c1).sub (V3.smul v01 c0))
  let c0' ← renorm? c0
  let vp ← renorm? (c0'.cross c1')
  let c2' := if (0:α) < vp.dot c2 then vp else V3.smul (-1) vp
  let sn (x : α) : α := if fabs x < snap then 0 else x
  -- columns flattened, then transposed back
  transpose9 [sn c0'.x, sn c0'.y, sn c0'.z, sn c1'.x, sn c1'.y, sn c1'.z, sn c2'.x, sn c2'.y, sn c2'.z]

/-- `Transformation.normalize_transform` -/
def normTransform (snap : α) (tr : List (Option α)) : Except TrErr (List α) :=
  let bad : Bool := tr.length == 13 && (match tr.getLast? with | some (some m) => !(m == 1) | _ => true)
  if bad then .error .mMinusOne
  else if tr.isEmpty then .ok ([0, 0, 0] ++ identity9)
  else
    let o := tr.take 3
    match o.mapM id with
    | none => .error .malformed
    | some ov =>
      if tr.length == 3 then .ok (ov ++ identity9)
      else
        match normMatrix ((tr.drop 3).take 9) with
        | .error e => .error e
        | .ok m =>
          match m.mapM id with
          | none => .error .malformed
          | some mv =>
            match adjustMatrix snap mv with
            | some adj => .ok (ov ++ adj)
            | none => .error .zeroDivision
end

end T4V
