/-!
# S-expressions: the wire format between the Python harness and the Lean driver.
Atoms are maximal runs of non-blank, non-parenthesis characters; `"…"` strings are
atoms that may contain blanks (no escapes needed: payload strings are hex-encoded).
-/
namespace T4V

inductive Sexp where
  | atom : String → Sexp
  | list : List Sexp → Sexp
deriving Repr, Inhabited, BEq

namespace Sexp

private def isBlank (c : Char) : Bool := c == ' ' || c == '\n' || c == '\t' || c == '\r'

/-- tokeniser -/
def tokens (cs : List Char) : List String := Id.run do
  let mut out : Array String := #[]
  let mut cur : List Char := []
  let mut inStr := false
  for c in cs do
    if inStr then
      if c == '"' then
        out := out.push (String.ofList cur.reverse); cur := []; inStr := false
      else cur := c :: cur
    else if c == '"' then
      inStr := true
      -- mark string atoms with a leading '"' so that the empty string is representable
      cur := ['"']
    else if c == '(' || c == ')' then
      if !cur.isEmpty then out := out.push (String.ofList cur.reverse); cur := []
      out := out.push (String.singleton c)
    else if isBlank c then
      if !cur.isEmpty then out := out.push (String.ofList cur.reverse); cur := []
    else cur := c :: cur
  if !cur.isEmpty then out := out.push (String.ofList cur.reverse)
  return out.toList

/-- parse a token list with an explicit stack (total, no fuel needed) -/
def parseTokens (ts : List String) : Option Sexp := Id.run do
  let mut stack : List (List Sexp) := [[]]
  for t in ts do
    if t == "(" then stack := [] :: stack
    else if t == ")" then
      match stack with
      | top :: next :: rest => stack := (Sexp.list top.reverse :: next) :: rest
      | _ => return none
    else
      let a := if t.startsWith "\"" then (t.drop 1).toString else t
      match stack with
      | top :: rest => stack := (Sexp.atom a :: top) :: rest
      | [] => return none
  match stack with
  | [[s]] => return some s
  | [ss] => return some (Sexp.list ss.reverse)
  | _ => return none

def parse (s : String) : Option Sexp := parseTokens (tokens s.toList)

def head? : Sexp → Option String
  | .list (.atom h :: _) => some h
  | _ => none

def args : Sexp → List Sexp
  | .list (_ :: r) => r
  | _ => []

def atom? : Sexp → Option String
  | .atom a => some a
  | _ => none

def items : Sexp → List Sexp
  | .list l => l
  | _ => []

/-- first sub-list whose head is `k` -/
def field? (s : Sexp) (k : String) : Option Sexp :=
  s.items.find? (fun x => x.head? == some k)

def fields (s : Sexp) (k : String) : List Sexp :=
  s.items.filter (fun x => x.head? == some k)

partial def toString : Sexp → String
  | .atom a => a
  | .list l => "(" ++ " ".intercalate (l.map toString) ++ ")"

end Sexp

/-- decimal → Float, correctly rounded (`Float.ofScientific`); accepts what Python's `repr`
and `'%.15e'` produce plus `inf`/`nan` spellings (mapped to `none`: non-finite). -/
def parseFloat? (s : String) : Option Float := do
  let cs := s.toList
  let (neg, cs) := match cs with
    | '-' :: r => (true, r) | '+' :: r => (false, r) | r => (false, r)
  let ip := cs.takeWhile Char.isDigit
  let cs := cs.dropWhile Char.isDigit
  let (fp, cs) := match cs with
    | '.' :: r => (r.takeWhile Char.isDigit, r.dropWhile Char.isDigit)
    | r => ([], r)
  if ip.isEmpty && fp.isEmpty then none
  let (ex, cs) ← match cs with
    | [] => some ((0 : Int), [])
    | c :: r =>
      if c == 'e' || c == 'E' then
        let (eneg, r) := match r with
          | '-' :: r => (true, r) | '+' :: r => (false, r) | r => (false, r)
        let ed := r.takeWhile Char.isDigit
        if ed.isEmpty then none else
        let e := (String.ofList ed).toNat!
        some ((if eneg then -(e : Int) else e), r.dropWhile Char.isDigit)
      else none
  if !cs.isEmpty then none
  let mant := (String.ofList (ip ++ fp)).toNat!
  let e10 : Int := ex - fp.length
  let v := if e10 ≥ 0 then Float.ofScientific (mant * 10 ^ e10.toNat) false 0
           else Float.ofScientific mant true e10.natAbs
  some (if neg then -v else v)

/-- Fortran-style real literal (`1.2-4`, `1d3`, `-.5E+2`) → Float: `d` is an exponent marker and a
sign that follows a digit or the point starts a bare exponent -/
def parseFortran? (s : String) : Option Float :=
  let cs := s.trimAscii.toString.toList.map Char.toLower
  let cs := cs.map fun c => if c == 'd' then 'e' else c
  let rec ins : List Char → Char → Nat → List Char
    | [], _, _ => []
    | c :: r, prev, i =>
        if (c == '+' || c == '-') && i != 0 && prev != 'e' then 'e' :: c :: ins r c (i + 1)
        else c :: ins r c (i + 1)
  parseFloat? (String.ofList (ins cs ' ' 0))

def parseInt? (s : String) : Option Int := s.toInt?

def hexVal (c : Char) : Option Nat :=
  if '0' ≤ c ∧ c ≤ '9' then some (c.toNat - '0'.toNat)
  else if 'a' ≤ c ∧ c ≤ 'f' then some (c.toNat - 'a'.toNat + 10)
  else none

/-- hex (of UTF-8 bytes) → String; payload texts are ASCII/UTF-8 -/
def unhex (s : String) : Option String := do
  if s == "-" then return ""
  let rec go : List Char → Array UInt8 → Option (Array UInt8)
    | [], acc => some acc
    | a :: b :: r, acc => do
        let x ← hexVal a; let y ← hexVal b
        go r (acc.push (UInt8.ofNat (x * 16 + y)))
    | _, _ => none
  let bytes ← go s.toList #[]
  String.fromUTF8? ⟨bytes⟩

def hexDigit (n : Nat) : Char := if n < 10 then Char.ofNat (48 + n) else Char.ofNat (87 + n)
def hex (s : String) : String :=
  if s.isEmpty then "-" else
  String.ofList (s.toUTF8.toList.flatMap fun b => [hexDigit (b.toNat / 16), hexDigit (b.toNat % 16)])

end T4V
