/-!
# `Utils.normalize_float` (model) and the spelling classes of Fortran real literals (spec)
Import-free.
-/
namespace T4V

def isDig (c : Char) : Bool := c.isDigit
def isSign (c : Char) : Bool := c == '-' || c == '+'

/-- split an optional leading sign -/
def splitSign : List Char → List Char × List Char
  | c :: r => if isSign c then ([c], r) else ([], c :: r)
  | [] => ([], [])

/-- drop trailing zeros -/
def stripZerosR (l : List Char) : List Char := (l.reverse.dropWhile (· == '0')).reverse

/-- pass 1: `re.sub(r'^([-+]?[0-9]*\.[0-9]*?)0+$', r'\1', s)` — a plain decimal (sign? digits '.' digits)
ending in '0' loses the trailing zeros of its fractional part -/
def nfStripZeros (s : List Char) : List Char :=
  let (sg, r) := splitSign s
  let ip := r.takeWhile isDig
  match r.dropWhile isDig with
  | '.' :: fp =>
      if fp.all isDig && fp.getLast? == some '0' then sg ++ ip ++ ['.'] ++ stripZerosR fp else s
  | _ => s

/-- pass 2: a trailing point gets a zero -/
def nfPointZero (s : List Char) : List Char :=
  if s.getLast? == some '.' then s ++ ['0'] else s

/-- pass 3: `re.sub(r'^([-+]?([0-9]+(\.[0-9]*)?|[0-9]*\.[0-9]+))([-+][0-9]+)$', r'\1e\4', s)` — a mantissa
followed by a bare signed exponent gets the marker `e` -/
def nfInsertE (s : List Char) : List Char :=
  let (sg, r) := splitSign s
  let ip := r.takeWhile isDig
  let r1 := r.dropWhile isDig
  let (fpart, r2, hasPoint) := match r1 with
    | '.' :: t => (t.takeWhile isDig, t.dropWhile isDig, true)
    | t => ([], t, false)
  -- mantissa must contain a digit
  if ip.isEmpty && fpart.isEmpty then s else
  match r2 with
  | c :: ex =>
      if isSign c && !ex.isEmpty && ex.all isDig then
        sg ++ ip ++ (if hasPoint then '.' :: fpart else []) ++ ['e', c] ++ ex
      else s
  | [] => s

/-- pass 4: every exponent marker becomes `e` -/
def nfMarkers (s : List Char) : List Char :=
  s.map fun c => if c == 'E' || c == 'd' || c == 'D' then 'e' else c

/-- `normalize_float` (defined for non-empty input; the Python code raises IndexError on '') -/
def normalizeFloat (s : List Char) : List Char :=
  nfMarkers (nfInsertE (nfPointZero (nfStripZeros s)))

/-! ## Spec: what a literal denotes, and when two literals are "the same spelling" -/

/-- a Fortran real literal decomposed: sign, integer digits, fraction digits, exponent -/
structure RealLit where
  neg : Bool
  ip : List Char
  fp : List Char
  hasPoint : Bool
  exp : Option (Bool × List Char)   -- (negative?, digits)
  marker : Option Char              -- e E d D or none (bare sign)
deriving Repr

def parseRealLit (s : List Char) : Option RealLit :=
  let (sg, r) := splitSign s
  let neg := sg == ['-']
  let ip := r.takeWhile isDig
  let r1 := r.dropWhile isDig
  let (fp, r2, hasPoint) := match r1 with
    | '.' :: t => (t.takeWhile isDig, t.dropWhile isDig, true)
    | t => ([], t, false)
  if ip.isEmpty && fp.isEmpty then none else
  match r2 with
  | [] => some { neg, ip, fp, hasPoint, exp := none, marker := none }
  | c :: rest =>
      let (marker, rest) :=
        if c == 'e' || c == 'E' || c == 'd' || c == 'D' then (some c, rest) else (none, c :: rest)
      let (esg, ed) := splitSign rest
      if ed.isEmpty || !ed.all isDig then none
      else if marker.isNone && esg.isEmpty then none
      else some { neg, ip, fp, hasPoint, exp := some (esg == ['-'], ed), marker }

def digitsNat (ds : List Char) : Nat := ds.foldl (fun a d => a * 10 + (d.toNat - '0'.toNat)) 0

/-- numeric value as (signed mantissa, power of ten): value = m · 10^e -/
def RealLit.value (l : RealLit) : Int × Int :=
  let m : Int := digitsNat (l.ip ++ l.fp)
  let e : Int := match l.exp with
    | none => 0
    | some (neg, ds) => if neg then -(digitsNat ds : Int) else digitsNat ds
  (if l.neg then -m else m, e - l.fp.length)

/-- equality of m₁·10^e₁ and m₂·10^e₂ -/
def valueEq (a b : Int × Int) : Bool :=
  let e := if a.2 < b.2 then a.2 else b.2
  a.1 * (10 : Int) ^ (a.2 - e).toNat == b.1 * (10 : Int) ^ (b.2 - e).toNat

/-- spelling class (the equivalence the property names, read narrowly): trailing zeros of the
fractional part of a literal *without* exponent are immaterial (`1.` = `1.0` = `1.00`), and so is
the choice of exponent marker among e / E / d / D / absent-before-a-sign -/
def spellClass (s : List Char) : Option (List Char) :=
  match parseRealLit s with
  | none => none
  | some l =>
    let sg : List Char := if (splitSign s).1.isEmpty then [] else (splitSign s).1
    match l.exp with
    | none =>
        let fp := if l.hasPoint then (let f := stripZerosR l.fp; if f.isEmpty then ['0'] else f) else []
        some (sg ++ l.ip ++ (if l.hasPoint then '.' :: fp else []))
    | some (eneg, ed) =>
        -- the exponent's own sign character is kept as written
        let r := (s.dropWhile fun c => !(c == 'e' || c == 'E' || c == 'd' || c == 'D'))
        let esign : List Char :=
          if l.marker.isSome then (match r with | _ :: c :: _ => if isSign c then [c] else [] | _ => [])
          else [if eneg then '-' else '+']
        some (sg ++ l.ip ++ (if l.hasPoint then '.' :: l.fp else []) ++ ['e'] ++ esign ++ ed)

end T4V
