import T4V.Text.CellCard
/-!
# `main.parse_lattice` / `Lattice.parse_ranges` (model): the arguments of `--lattice`

`cell,i_min:i_max[,j_min:j_max[,k_min:k_max]]`, any number of options; Python's `int()` on ASCII text (blanks around
the number, an optional sign, digits with single underscores between them).
-/
namespace T4V.LA
open T4V.CC

inductive LErr | noRanges | tooMany | cellNotInt | needTwo | boundNotInt
deriving Repr, DecidableEq

def LErr.name : LErr → String
  | .noRanges => "no-ranges" | .tooMany => "too-many" | .cellNotInt => "cell-not-int"
  | .needTwo => "need-two" | .boundNotInt => "bound-not-int"

/-- `str.split(sep)` for a one-character separator: k separators give k+1 pieces -/
def splitOn (sep : Char) : List Char → List (List Char)
  | [] => [[]]
  | c :: r =>
      if c == sep then [] :: splitOn sep r
      else match splitOn sep r with
        | [] => [[c]]                       -- not reached: the result is never empty
        | p :: ps => (c :: p) :: ps

/-- `str.strip()` on ASCII white space -/
def strip (l : List Char) : List Char := ((l.dropWhile cws).reverse.dropWhile cws).reverse

/-- Python's `int()` on ASCII text -/
def pyInt? (s : List Char) : Option Int :=
  match strip s with
  | '-' :: r => (String.ofList r).toNat?.map fun n => -(n : Int)
  | '+' :: r => (String.ofList r).toNat?.map fun n => (n : Int)
  | t => (String.ofList t).toNat?.map fun n => (n : Int)

/-- one range `lo:hi` -/
def parseRange (r : List Char) : Except LErr (Int × Int) :=
  match splitOn ':' r with
  | [a, b] =>
      match pyInt? a with
      | none => .error .boundNotInt
      | some lo => match pyInt? b with
        | none => .error .boundNotInt
        | some hi => .ok (lo, hi)
  | _ => .error .needTwo

def parseRanges : List (List Char) → Except LErr (List (Int × Int))
  | [] => .ok []
  | r :: rs => match parseRange r with
    | .error e => .error e
    | .ok x => match parseRanges rs with
      | .error e => .error e
      | .ok xs => .ok (x :: xs)

/-- one `--lattice` option -/
def parseOption (opt : List Char) : Except LErr (Int × List (Int × Int)) :=
  match splitOn ',' opt with
  | [] => .error .noRanges
  | [_] => .error .noRanges
  | head :: rest =>
      if rest.length > 3 then .error .tooMany else
      match pyInt? head with
      | none => .error .cellNotInt
      | some cell => match parseRanges rest with
        | .error e => .error e
        | .ok rs => .ok (cell, rs)

/-- `lattice_params[cell] = …`: a later option for the same cell replaces the ranges, the position of the first is kept -/
def put (d : List (Int × List (Int × Int))) (k : Int) (v : List (Int × Int)) : List (Int × List (Int × Int)) :=
  if d.any (·.1 == k) then d.map fun e => if e.1 == k then (k, v) else e else d ++ [(k, v)]

/-- `parse_lattice`: the options in order, the first failing one stops -/
def parseLattice (opts : List (List Char)) : Except LErr (List (Int × List (Int × Int))) :=
  opts.foldlM (fun d o => match parseOption o with
    | .error e => .error e
    | .ok (c, rs) => .ok (put d c rs)) []

end T4V.LA
