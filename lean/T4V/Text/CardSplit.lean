import T4V.Text.CellCard
/-!
# Splitting surface and data cards (`MIP/mip/surfacecard.py`, `MIP/mip/datacard.py` `split`)

On the one-line content of a card.  Uses the character classes of `T4V.Text.CellCard`.
-/
namespace T4V.CC

structure SurfParts where
  name : List Char      -- `[+*]*\d+`
  tr : List Char        -- `[-+]*\d*\s*` (the transformation number with the blanks that follow it)
  mn : List Char        -- `[a-zA-Z/]+`
  params : List Char
deriving Repr, DecidableEq

def isFlag (c : Char) : Bool := c == '+' || c == '*'
def isSign (c : Char) : Bool := c == '-' || c == '+'
def isMnChar (c : Char) : Bool := isLetter c || c == '/'

/-- `re_surface = ^\s*([+*]*\d+)\s+([-+]*\d*\s*)([a-zA-Z/]+)\s+(.*)$`; `none` when there is no match
(`AttributeError` in `split`).  After the name, the regular expression can only match in one way: blanks, then signs,
digits and blanks as far as they go, then the mnemonic, at least one blank, the rest. -/
def splitSurface (txt : List Char) : Option SurfParts :=
  let t0 := txt.dropWhile cws
  let flags := t0.takeWhile isFlag
  let t1 := t0.dropWhile isFlag
  let ds := t1.takeWhile isDigit
  let t2 := t1.dropWhile isDigit
  if ds.isEmpty then none else
  let ws1 := t2.takeWhile cws
  let t3 := t2.dropWhile cws
  if ws1.isEmpty then none else
  let sg := t3.takeWhile isSign
  let t4 := t3.dropWhile isSign
  let td := t4.takeWhile isDigit
  let t5 := t4.dropWhile isDigit
  let ws2 := t5.takeWhile cws
  let t6 := t5.dropWhile cws
  let mn := t6.takeWhile isMnChar
  let t7 := t6.dropWhile isMnChar
  if mn.isEmpty then none else
  let ws3 := t7.takeWhile cws
  if ws3.isEmpty then none else
  some { name := flags ++ ds, tr := sg ++ td ++ ws2, mn, params := t7.dropWhile cws }

structure DataParts where
  typ : List Char       -- `\**[a-zA-Z]+[^0-9]*`
  name : List Char      -- `[0-9]*`
  star : List Char      -- `\*?`
  params : List Char
deriving Repr, DecidableEq

/-- `re_data = ^\s*(\**[a-zA-Z]+[^0-9]*)([0-9]*)(\*?)(.*)$` -/
def splitData (txt : List Char) : Option DataParts :=
  let t0 := txt.dropWhile cws
  let stars := t0.takeWhile (· == '*')
  let t1 := t0.dropWhile (· == '*')
  let ls := t1.takeWhile isLetter
  let t2 := t1.dropWhile isLetter
  if ls.isEmpty then none else
  let nd := t2.takeWhile (!isDigit ·)
  let t3 := t2.dropWhile (!isDigit ·)
  let ds := t3.takeWhile isDigit
  let t4 := t3.dropWhile isDigit
  match t4 with
  | '*' :: r => some { typ := stars ++ ls ++ nd, name := ds, star := ['*'], params := r }
  | r => some { typ := stars ++ ls ++ nd, name := ds, star := [], params := r }

end T4V.CC
