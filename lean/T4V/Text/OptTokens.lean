import T4V.Text.CellCard
/-!
# From the options text of a cell card to the keyword tokens (`parse_one_cell_worker`)

```
option = re.sub(' *: *', ':', option)
option = option.lower().replace('(', ' ').replace(')', ' ').replace('=', ' ')
kw_list = list(reversed(option.split()))
```
Characters one by one; `lower` is ASCII lower-casing.
-/
namespace T4V.CC

/-- skip the spaces that follow a colon (`: *` → `:`) -/
def dropSpAfterColon : Bool → List Char → List Char
  | _, [] => []
  | after, c :: r =>
      if after && c == ' ' then dropSpAfterColon true r
      else c :: dropSpAfterColon (c == ':') r

/-- `re.sub(' *: *', ':', s)`: the spaces on either side of every colon are removed -/
def colonSquash (s : List Char) : List Char :=
  (dropSpAfterColon false (dropSpAfterColon false s).reverse).reverse

def punctToBlank (c : Char) : Char := if c == '(' || c == ')' || c == '=' then ' ' else c

/-- `str.split()`: maximal runs of non-blank characters (scanned from the right: the word being built, the words done) -/
def splitStep (c : Char) (st : List Char × List (List Char)) : List Char × List (List Char) :=
  if cws c then (if st.1.isEmpty then ([], st.2) else ([], st.1 :: st.2)) else (c :: st.1, st.2)

def finalize (st : List Char × List (List Char)) : List (List Char) := if st.1.isEmpty then st.2 else st.1 :: st.2

def splitWs (cs : List Char) : List (List Char) := finalize (cs.foldr splitStep ([], []))

/-- the keyword tokens in reading order -/
def optTokens (s : List Char) : List (List Char) :=
  splitWs ((colonSquash s).map fun c => punctToBlank (lower c))

end T4V.CC
