/-!
# Splitting a cell card into name, material, geometry and options (`MIP/mip/cellcard.py` `split`)

The argument is the one-line content of a card (`Card.content()`: comments removed, every run of blanks replaced by
one blank), so it contains no line break.  Characters are modelled one by one; `\s` is the six ASCII blanks.
Import-free.
-/
namespace T4V.CC

def cws (c : Char) : Bool := c == ' ' || c == '\t' || c == '\n' || c == '\r' || c == '\x0b' || c == '\x0c'
def isLetter (c : Char) : Bool := ('a' ≤ c && c ≤ 'z') || ('A' ≤ c && c ≤ 'Z')
def isDigit (c : Char) : Bool := '0' ≤ c && c ≤ '9'
def lower (c : Char) : Char := if 'A' ≤ c && c ≤ 'Z' then Char.ofNat (c.toNat + 32) else c

/-- `re_options = ([\)\s])([\*a-zA-Z].*)$`, leftmost match: (text before, the `)` or blank, the options) -/
def findOptions : List Char → Option (List Char × Char × List Char)
  | a :: b :: r =>
      if (a == ')' || cws a) && (b == '*' || isLetter b) then some ([], a, b :: r)
      else (findOptions (b :: r)).map fun (p1, p2, o) => (a :: p1, p2, o)
  | _ => none

/-- the card without its options, and the options (`re_options.split`) -/
def cutOptions (txt : List Char) : List Char × List Char :=
  match findOptions txt with
  | some (p1, p2, o) => (p1 ++ [p2], o)
  | none => (txt, [])

/-- the first blank-separated word and what follows it (`str.split(None, …)` peels words off like this) -/
def word (cs : List Char) : List Char × List Char :=
  let t := cs.dropWhile cws
  (t.takeWhile (!cws ·), t.dropWhile (!cws ·))

def stripSign : List Char → List Char
  | '+' :: r => r
  | '-' :: r => r
  | r => r

def fracPart : List Char → List Char × List Char
  | '.' :: r => (r.takeWhile isDigit, r.dropWhile isDigit)
  | r => ([], r)

def expOk : List Char → Bool
  | [] => true
  | e :: r => (e == 'e' || e == 'E') && !(stripSign r).isEmpty && (stripSign r).all isDigit

def digitsNat (ds : List Char) : Nat := ds.foldl (fun n c => 10 * n + (c.toNat - '0'.toNat)) 0

/-- does the decimal `D · 10^(e − nfrac)` (digits `ds = D`, written exponent `ex`) round to the double 0.0?  Exactly
when it is at most 2^-1075, half of the smallest subnormal (the tie goes to the even neighbour, 0): Python's `float`
is correctly rounded.  `1.2e-431` is "zero" for `cellcard.split`, `4.9e-324` is not. -/
def underflows (ds : List Char) (nfrac : Nat) (ex : List Char) : Bool :=
  let d := digitsNat ds
  let neg := match ex with | _ :: '-' :: _ => true | _ => false
  let e := digitsNat (stripSign (ex.drop 1))
  if d == 0 then true
  else if !neg then
    -- 10^k with k = e − nfrac ≥ 0 is ≥ 1; with k < 0 the decimal is d / 10^(nfrac − e)
    if nfrac ≤ e then false else d * 2 ^ 1075 ≤ 10 ^ (nfrac - e)
  else
    -- d / 10^(nfrac + e): beyond 400 + (number of digits) places the value is below 1e-400 < 2^-1075
    if nfrac + e ≥ 400 + ds.length then true else d * 2 ^ 1075 ≤ 10 ^ (nfrac + e)

/-- Python's `float(tok)` on the decimal spellings `[sign] digits [. digits] [e [sign] digits]` (at least one digit in
the mantissa): `some true` when the value is the double zero (the decimal is zero **or underflows to it**),
`some false` when it is not, `none` when `float` raises (other spellings Python accepts — `inf`, `nan`, underscores —
are outside the model) -/
def floatZero? (tok : List Char) : Option Bool :=
  let t := stripSign tok
  let ip := t.takeWhile isDigit
  let fr := fracPart (t.dropWhile isDigit)
  if ip.isEmpty && fr.1.isEmpty then none else
  if !expOk fr.2 then none else some (underflows (ip ++ fr.1) fr.1.length fr.2)

inductive SplitErr | tooFew | notFloat | noMatch
deriving Repr, DecidableEq

structure Parts where
  name : List Char
  mat : List Char
  geom : List Char
  opts : List Char
deriving Repr, DecidableEq

/-- `(\s*[0-9]+)` at the start: leading blanks and the maximal run of digits, which must be non-empty -/
def nameGroup (cs : List Char) : Option (List Char × List Char) :=
  let ws := cs.takeWhile cws
  let r := cs.dropWhile cws
  let ds := r.takeWhile isDigit
  if ds.isEmpty then none else some (ws ++ ds, r.dropWhile isDigit)

/-- `(\s+\S+)`: at least one blank, then a maximal word -/
def wsWord (cs : List Char) : Option (List Char × List Char) :=
  let ws := cs.takeWhile cws
  let r := cs.dropWhile cws
  let w := r.takeWhile (!cws ·)
  if ws.isEmpty || w.isEmpty then none else some (ws ++ w, r.dropWhile (!cws ·))

/-- `(\s+[^\s(]+)`: at least one blank, then a maximal run of characters other than blanks and `(` -/
def wsDensity (cs : List Char) : Option (List Char × List Char) :=
  let ws := cs.takeWhile cws
  let r := cs.dropWhile cws
  let w := r.takeWhile fun c => !cws c && c != '('
  if ws.isEmpty || w.isEmpty then none else some (ws ++ w, r.dropWhile fun c => !cws c && c != '(')

/-- position of the last `but` (any letter case) in a text: (text up to and including it, the rest) -/
def lastBut : List Char → Option (List Char × List Char)
  | [] => none
  | c :: r =>
    match lastBut r with
    | some (a, b) => some (c :: a, b)
    | none =>
      match c :: r with
      | x :: y :: z :: rest => if lower x == 'b' && lower y == 'u' && lower z == 't' then some ([x, y, z], rest) else none
      | _ => none

/-- `cellcard.split` -/
def splitCell (txt : List Char) : Except SplitErr Parts :=
  let (_, r1) := word txt
  let (t2, r2) := word r1
  if t2.isEmpty || (r2.dropWhile cws).isEmpty then .error .tooFew else
  if t2.map lower == "like".toList then
    -- re_likebut = ^(\s*[0-9]+)(\s+like.*but)(.*)$  (IGNORECASE)
    match nameGroup txt with
    | none => .error .noMatch
    | some (name, rest) =>
      let ws := rest.takeWhile cws
      let r := rest.dropWhile cws
      if ws.isEmpty then .error .noMatch else
      match r with
      | l :: i :: k :: e :: tail =>
        if [l, i, k, e].map lower == "like".toList then
          match lastBut tail with
          | some (a, b) => .ok { name, mat := [], geom := ws ++ [l, i, k, e] ++ a, opts := b }
          | none => .error .noMatch
        else .error .noMatch
      | _ => .error .noMatch
  else
    let body := (cutOptions txt).1
    let opts := (cutOptions txt).2
    match floatZero? t2 with
    | none => .error .notFloat
    | some zero =>
      match nameGroup body with
      | none => .error .noMatch
      | some (name, rest) =>
        match wsWord rest with
        | none => .error .noMatch
        | some (m1, rest2) =>
          if zero then .ok { name, mat := m1, geom := rest2, opts }
          else
            match wsDensity rest2 with
            | none => .error .noMatch
            | some (m2, rest3) => .ok { name, mat := m1 ++ m2, geom := rest3, opts }

end T4V.CC
