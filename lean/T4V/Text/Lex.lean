/-!
# Card lexer (model): `MIP/mip/cards.py` (`get_cards(skipcomments=True)`, `is_continuation`,
`expand_tabs`) and `MIP/mip/main.py` (`Card.content`)

Character-level model over `List Char`.  A block is a list of lines (the result of `str.splitlines`).
ASCII white space only (`\s` of Python also matches a few non-ASCII blanks, which are outside the model).
-/
namespace T4V.Lex

def isWs (c : Char) : Bool := c == ' ' || c == '\t' || c == '\x0b' || c == '\x0c' || c == '\r' || c == '\n'

/-- `re_comment = ^\s{0,4}[cC](\s|$)` -/
def isCommentLine (l : List Char) : Bool :=
  let rec go : Nat → List Char → Bool
    | n, c :: rest =>
        ((c == 'c' || c == 'C') && (match rest with | [] => true | d :: _ => isWs d))
          || (n > 0 && isWs c && go (n - 1) rest)
    | _, [] => false
  go 4 l

/-- `expand_tabs`: tabs become blanks up to the next multiple of 8 -/
def expandTabs (l : List Char) : List Char :=
  let rec go : Nat → List Char → List Char
    | _, [] => []
    | i, c :: rest =>
        if c == '\t' then let n := 8 - i % 8; List.replicate n ' ' ++ go (i + n) rest
        else c :: go (i + 1) rest
  go 0 l

/-- `re_continuation_spaces = ^\s{5,}` -/
def leading5 (l : List Char) : Bool := 5 ≤ (l.takeWhile isWs).length

/-- `re_continuation_prev = [^$]*&\s*($|\$.*$)`: before the first `$` (or the end), the last non-blank
character is `&` -/
def ampCont (prev : List Char) : Bool :=
  let pre := prev.takeWhile (· != '$')
  (pre.reverse.dropWhile isWs).head? == some '&'

def isContinuation (l : List Char) (prev : Option (List Char)) : Bool :=
  leading5 (expandTabs l) ||
    (match prev with
     | some p => !p.isEmpty && ampCont p
     | none => false)

structure St where
  done : List (List (List Char)) := []     -- finished cards, most recent first
  cur : List (List Char) := []             -- lines of the current card, most recent first
  prev : Option (List Char) := none

/-- one line of `get_cards(skipcomments=True)` -/
def step (s : St) (l : List Char) : St :=
  if isCommentLine l then s
  else if isContinuation l s.prev then { s with cur := l :: s.cur, prev := some l }
  else { done := if s.cur.isEmpty then s.done else s.cur.reverse :: s.done, cur := [l], prev := some l }

def finish (s : St) : List (List (List Char)) :=
  (if s.cur.isEmpty then s.done else s.cur.reverse :: s.done).reverse

/-- `get_cards(block, skipcomments=True)`: the lines of each card -/
def getCards (lines : List (List Char)) : List (List (List Char)) := finish (lines.foldl step {})

/-- `re_comment.split(l)` with `[$&].*$`: the text before the first `$` or `&` -/
def truncate (l : List Char) : List Char := l.takeWhile fun c => c != '$' && c != '&'

def hasMarker (l : List Char) : Bool := l.any fun c => c == '$' || c == '&'

/-- `re_spaces.sub(' ', s)`: every maximal run of white space becomes one blank (`inWs` = the previous
character was white space) -/
def collapseAux : Bool → List Char → List Char
  | _, [] => []
  | inWs, c :: rest =>
      if isWs c then (if inWs then collapseAux true rest else ' ' :: collapseAux true rest)
      else c :: collapseAux false rest

def collapse (l : List Char) : List Char := collapseAux false l

/-- `Card.content`: pieces joined by one blank (a line with a marker contributes its prefix and an empty
piece), white space collapsed -/
def content (card : List (List Char)) : List Char :=
  let pieces := card.flatMap fun l => if hasMarker l then [truncate l, []] else [l]
  collapse ((pieces.intersperse [' ']).flatten)

def contents (lines : List (List Char)) : List (List Char) := (getCards lines).map content

end T4V.Lex
