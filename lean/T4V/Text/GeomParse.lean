import T4V.Model.Tree
/-!
# Text layer model: `MIP/geom/parsegeom.py` (`normalize`, `get_ast`), `geom.ebnf`, `GeomSemantics`

* `normalize` — the regex passes written as explicit scanners over `List Char`;
* the PEG of `geom.ebnf` as a recursive-descent parser on the normalised characters, the two
  left-recursive rules (`union`, `isect`) as left-associative loops (what seed-growing left
  recursion computes), with PEG back-tracking of a failed loop iteration;
* `GeomSemantics`: `_( … )` applies the De Morgan inverse at parse time, `^( n )` yields a
  complement node.
Import-free.
-/
namespace T4V

def isWs (c : Char) : Bool :=
  c == ' ' || c == '\t' || c == '\n' || c == '\r' || c == '\x0b' || c == '\x0c'

def dropWs (cs : List Char) : List Char := cs.dropWhile isWs

theorem length_dropWhile_le' {α} (p : α → Bool) : ∀ l : List α, (l.dropWhile p).length ≤ l.length
  | [] => by simp
  | a :: l => by
      simp only [List.dropWhile_cons]
      split
      · have := length_dropWhile_le' p l; simp; omega
      · simp

/-- `str.strip()` -/
def strip (cs : List Char) : List Char := (dropWs (dropWs cs).reverse).reverse

/-- delete every run of blanks that immediately follows the character `k` -/
def dropAfter (k : Char) : Bool → List Char → List Char
  | _, [] => []
  | after, c :: r =>
      if c == k then c :: dropAfter k true r
      else if after && isWs c then dropAfter k true r
      else c :: dropAfter k false r

/-- `re.sub(r'\s*:\s*', ':')`: blanks on either side of a colon disappear -/
def subUnion (cs : List Char) : List Char :=
  (dropAfter ':' false (dropAfter ':' false cs).reverse).reverse

/-- `re.sub(r'#\s*(\d+)', r' ^(\1)')` then `re.sub(r'#\s*\(', ' _(')`; both look at what follows
`#` and its blanks, and neither can create a match for the other, so one scanner does both
(fuel = length of the input). -/
def subComplF : Nat → List Char → List Char
  | 0, cs => cs
  | _ + 1, [] => []
  | fuel + 1, c :: r =>
    if c == '#' then
      let rest := dropWs r
      match rest with
      | '(' :: r' => ' ' :: '_' :: '(' :: subComplF fuel r'
      | d :: _ =>
          if d.isDigit then
            let ds := rest.takeWhile Char.isDigit
            let r' := rest.dropWhile Char.isDigit
            [' ', '^', '('] ++ ds ++ [')'] ++ subComplF fuel r'
          else c :: subComplF fuel r
      | [] => c :: subComplF fuel r
    else c :: subComplF fuel r

def subCompl (cs : List Char) : List Char := subComplF cs.length cs

/-- `re.sub(r'\(\s*', '(')` -/
def subParenOpen (cs : List Char) : List Char := dropAfter '(' false cs

/-- `re.sub(r'\s*\)', ')')` -/
def subParenClose (cs : List Char) : List Char := (dropAfter ')' false cs.reverse).reverse

def exclOpen (c : Char) : Bool := c == '(' || c == ':' || c == '^' || c == '_'
def exclClose (c : Char) : Bool := c == ')' || c == ':' || c == '^' || c == '_'

/-- `re.sub(r'([^\(:^_])\(', r'\1 (')` (non-overlapping, left to right) -/
def subBeforeOpen : List Char → List Char
  | c :: '(' :: r => if !exclOpen c then c :: ' ' :: '(' :: subBeforeOpen r else c :: subBeforeOpen ('(' :: r)
  | c :: r => c :: subBeforeOpen r
  | [] => []

/-- `re.sub(r'\)([^\):^_])', r') \1')` -/
def subAfterClose : List Char → List Char
  | ')' :: c :: r => if !exclClose c then ')' :: ' ' :: c :: subAfterClose r else ')' :: subAfterClose (c :: r)
  | c :: r => c :: subAfterClose r
  | [] => []

/-- `re.sub(r'\s+', '*')` -/
def subSpacesAux : Bool → List Char → List Char
  | _, [] => []
  | prevWs, c :: r =>
      if isWs c then (if prevWs then subSpacesAux true r else '*' :: subSpacesAux true r)
      else c :: subSpacesAux false r

def subSpaces (cs : List Char) : List Char := subSpacesAux false cs

/-- `parsegeom.normalize` -/
def normalize (s : List Char) : List Char :=
  let g := strip s
  let g := subUnion g
  let g := subCompl g
  let g := subUnion g
  let g := subParenOpen g
  let g := subParenClose g
  let g := subBeforeOpen g
  let g := subAfterClose g
  subSpaces (strip g)

/-! ## PEG of `geom.ebnf` on characters -/

def digitsVal (ds : List Char) : Nat := ds.foldl (fun acc d => acc * 10 + (d.toNat - '0'.toNat)) 0

/-- `surface = /[-+]{0,1}\d+(?:\.\d)?/` → `Surface(int, sub)` -/
def lexSurface (cs : List Char) : Option (Geom × List Char) :=
  let (neg, r) := match cs with
    | '-' :: r => (true, r)
    | '+' :: r => (false, r)
    | r => (false, r)
  let ds := r.takeWhile Char.isDigit
  if ds.isEmpty then none else
  let r2 := r.dropWhile Char.isDigit
  let n : Int := digitsVal ds
  let n := if neg then -n else n
  match r2 with
  | '.' :: d :: r3 => if d.isDigit then some (.surf n (some (d.toNat - '0'.toNat)), r3) else some (.surf n none, r2)
  | _ => some (.surf n none, r2)

inductive PErr | syntax | notInvertible | fuel
deriving Repr, DecidableEq

mutual
def pUnion : Nat → List Char → Except PErr (Geom × List Char)
  | 0, _ => .error .fuel
  | f + 1, cs => do
      let (a, rest) ← pIsect f cs
      pUnionLoop f a rest
def pUnionLoop : Nat → Geom → List Char → Except PErr (Geom × List Char)
  | 0, _, _ => .error .fuel
  | f + 1, acc, ':' :: cs =>
      match pIsect f cs with
      | .ok (b, rest) => pUnionLoop f (.node .union [acc, b]) rest
      | .error .syntax => .ok (acc, ':' :: cs)        -- PEG: the iteration is undone
      | .error e => .error e
  | _ + 1, acc, cs => .ok (acc, cs)
def pIsect : Nat → List Char → Except PErr (Geom × List Char)
  | 0, _ => .error .fuel
  | f + 1, cs => do
      let (a, rest) ← pOperand f cs
      pIsectLoop f a rest
def pIsectLoop : Nat → Geom → List Char → Except PErr (Geom × List Char)
  | 0, _, _ => .error .fuel
  | f + 1, acc, '*' :: cs =>
      match pOperand f cs with
      | .ok (b, rest) => pIsectLoop f (.node .inter [acc, b]) rest
      | .error .syntax => .ok (acc, '*' :: cs)
      | .error e => .error e
  | _ + 1, acc, cs => .ok (acc, cs)
def pOperand : Nat → List Char → Except PErr (Geom × List Char)
  | 0, _ => .error .fuel
  | f + 1, cs =>
    match cs with
    | '_' :: '(' :: r =>
        match pUnion f r with
        | .ok (a, ')' :: rest) =>
            match a.inverse with
            | some a' => .ok (a', rest)
            | none => .error .notInvertible
        | .ok _ => .error .syntax
        | .error e => .error e
    | '(' :: r =>
        match pUnion f r with
        | .ok (a, ')' :: rest) => .ok (a, rest)
        | .ok _ => .error .syntax
        | .error e => .error e
    | '^' :: '(' :: r =>
        let ds := r.takeWhile Char.isDigit
        if ds.isEmpty then .error .syntax else
        match r.dropWhile Char.isDigit with
        | ')' :: rest => .ok (.compl (digitsVal ds), rest)
        | _ => .error .syntax
    | _ =>
        match lexSurface cs with
        | some r => .ok r
        | none => .error .syntax
end

/-- `get_ast` (for non-LIKE geometry): `start = union $` -/
def parseGeom (s : String) : Except PErr Geom :=
  let cs := normalize s.toList
  match pUnion (3 * cs.length + 3) cs with
  | .ok (g, []) => .ok g
  | .ok _ => .error .syntax
  | .error e => .error e

end T4V
