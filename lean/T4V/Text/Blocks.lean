/-!
# `MIP/mip/blocks.py::get_block_positions` (model), at the level of lines

The code searches the regular expression `^\s*$` (MULTILINE) from the start of each block: a block ends at the first
line that consists of blanks only; the whole run of blank lines that follows (the match is greedy and `\s` takes
line ends) is the delimiter; the next block starts with the first line after it.  A leading block whose first word
(within the first 20 characters) is `message:` in any letter case is the message block; the first line of the next
block is the title and the rest of that block the cell block; then come the surface and the data block; more blocks
are an error.  Lines are what `'\n'` separates.
-/
namespace T4V

/-- Python's `\s` on ASCII -/
def bws (c : Char) : Bool :=
  c == ' ' || c == '\t' || c == '\n' || c == '\r' || c == '\x0b' || c == '\x0c'

def blankLine (l : List Char) : Bool := l.all bws

/-- blocks of a list of lines: (current block reversed, blocks so far reversed, inside a delimiter?) -/
def blocksAux : List (List Char) → List (List Char) → List (List (List Char)) → Bool → List (List (List Char))
  | [], cur, acc, inDelim => (if inDelim then acc else cur.reverse :: acc).reverse
  | l :: ls, cur, acc, inDelim =>
      if blankLine l then
        if inDelim then blocksAux ls [] acc true
        else blocksAux ls [] (cur.reverse :: acc) true
      else blocksAux ls (l :: cur) acc false

/-- the blocks of a text (a blank first line gives an empty first block, as the code does) -/
def blocksOf (lines : List (List Char)) : List (List (List Char)) := blocksAux lines [] [] false

def lowerC (c : Char) : Char := if 'A' ≤ c ∧ c ≤ 'Z' then Char.ofNat (c.toNat + 32) else c

/-- `text[:20].split()[0].lower() == 'message:'` -/
def startsWithMessage (text : List Char) : Bool :=
  let head := (text.take 20).dropWhile bws
  let word := head.takeWhile fun c => !bws c
  word.map lowerC == "message:".toList

inductive BlocksErr | spurious | empty deriving Repr, DecidableEq

structure Blocks where
  m : Option (List (List Char)) := none
  t : Option (List (List Char)) := none
  c : Option (List (List Char)) := none
  s : Option (List (List Char)) := none
  d : Option (List (List Char)) := none
deriving Repr, DecidableEq

def joinLines (ls : List (List Char)) : List Char := match ls with
  | [] => []
  | l :: r => r.foldl (fun acc x => acc ++ '\n' :: x) l

/-- `get_block_positions(text)` with `firstblock=None`, block contents as lists of lines -/
def getBlocks (lines : List (List Char)) : Except BlocksErr Blocks :=
  let bs := blocksOf lines
  let (msg, bs) := if startsWithMessage (joinLines lines) then (bs.head?, bs.drop 1) else (none, bs)
  match bs with
  | [] => .error .empty
  | [only] => .ok { m := msg, d := some only }
  | first :: rest =>
      match rest with
      | [c2] => .ok { m := msg, t := some (first.take 1), c := some (first.drop 1), s := some c2 }
      | [c2, c3] => .ok { m := msg, t := some (first.take 1), c := some (first.drop 1), s := some c2, d := some c3 }
      | _ => .error .spurious

end T4V
