import T4V.Num
import T4V.Sexp
import T4V.Text.NormFloat
/-!
# `MIP/mip/datacard.py: expand_data_card` and the importance logic of `ParseMCNPCell` (model)
Import-free; numeric operations generic.
-/
namespace T4V

/-- tokens of a data card after classification (the classification itself mirrors the
`last_char` dispatch of the Python code and is done by `classifyTok`) -/
inductive DTok (α : Type) where
  | num (x : α)
  | rep (n : Nat)                -- nR
  | interp (n : Nat)             -- nI
  | mul (f : α)                  -- xM
  | jump (n : Nat)               -- nJ
  | logi (n : Nat)               -- nILOG / nLOG
  | bad (why : String)
deriving Repr

inductive DErr | index | typeErr | value (m : String) | expected
deriving Repr

section
variable {α : Type} [Add α] [Sub α] [Mul α] [Div α] [OfNat α 0] [OfNat α 1]

def natCast' (n : Nat) : α := (List.range n).foldl (fun acc _ => acc + 1) 0

/-- `linspace(lower, upper, n)`: n interior points then `upper` -/
def linspace (lower upper : α) (n : Nat) : List α :=
  let step := (upper - lower) / natCast' (n + 1)
  ((List.range n).map fun i => lower + natCast' (i + 1) * step) ++ [upper]

/-- the stack machine of `expand_data_card` (`expected = none`: consume everything) -/
def expandData (expected : Option Nat) : List (DTok α) → List (Option α) → Nat →
    Except DErr (List (Option α) × Nat)
  | [], acc, consumed => .ok (acc, consumed)
  | t :: ts, acc, consumed =>
    if (match expected with | some e => decide (acc.length ≥ e) | none => false) then .ok (acc, consumed) else
    match t with
    | .num x => expandData expected ts (acc ++ [some x]) (consumed + 1)
    | .rep n =>
        match acc.getLast? with
        | none => .error .index
        | some v => expandData expected ts (acc ++ List.replicate n v) (consumed + 1)
    | .jump n => expandData expected ts (acc ++ List.replicate n none) (consumed + 1)
    | .mul f =>
        match acc.getLast? with
        | none => .error .index
        | some none => .error .typeErr
        | some (some v) => expandData expected ts (acc ++ [some (v * f)]) (consumed + 1)
    | .interp n =>
        -- `linspace(result[-1], tokens.pop(), …)`: result[-1] (IndexError), then the pop (IndexError),
        -- then float(upper) (ValueError), then float(lower) (TypeError for None)
        match acc.getLast?, ts with
        | none, _ => .error .index
        | _, [] => .error .index
        | some lo?, .num hi :: ts' =>
            match lo? with
            | none => .error .typeErr
            | some lo => expandData expected ts' (acc ++ (linspace lo hi n).map some) (consumed + 2)
        | some _, _ :: _ => .error (.value "interpolation bound is not a number")
    | .logi _ => .error (.value "log interpolation is not modelled")
    | .bad w => .error (.value w)
end

/-- `expand_data_card(..., expected=e)` final length check -/
def expandChecked {α : Type} [Add α] [Sub α] [Mul α] [Div α] [OfNat α 0] [OfNat α 1]
    (expected : Option Nat) (ts : List (DTok α)) : Except DErr (List (Option α) × Nat) :=
  match expandData expected ts [] 0 with
  | .error e => .error e
  | .ok (r, c) =>
    match expected with
    | some e => if r.length != e then .error .expected else .ok (r, c)
    | none => .ok (r, c)

/-! ### token classification (Float instance) -/

def classifyTok (tok : String) : DTok Float :=
  let t := tok.trimAscii.toString.toLower
  let cs := t.toList
  match cs.getLast? with
  | none => .bad "empty token"
  | some last =>
    let body := String.ofList cs.dropLast
    let count : Option Nat := if body.isEmpty then some 1 else body.toNat?
    if last == 'r' then (match count with | some n => .rep n | none => .bad "bad repeat count")
    else if last == 'i' then (match count with | some n => .interp n | none => .bad "bad interpolation count")
    else if last == 'm' then
      (if body.isEmpty then .bad "m needs a multiplier" else
        match parseFortran? body with | some f => .mul f | none => .bad "bad multiplier")
    else if last == 'j' then (match count with | some n => .jump n | none => .bad "bad jump count")
    else if cs.length ≥ 3 && t.endsWith "log" then .logi 0
    else match parseFortran? t with
      | some x => .num x
      | none => .bad s!"not a number: {t}"

/-! ### importances -/

section
variable {α : Type} [LT α] [DecidableRel (α := α) (· < ·)]

/-- `max(a, b)` as Python computes it on two numbers (`None` when an entry is missing) -/
def maxOpt (a b : Option α) : Option α :=
  match a, b with
  | some a, some b => some (if a < b then b else a)
  | _, _ => none

/-- entry `i` of the combined importances: the maximum over the cards, starting from the first -/
def rankMax (c : List (Option α)) (cs : List (List (Option α))) (i : Nat) : Option α :=
  (c :: cs).foldl (fun acc card => maxOpt acc (card.getD i none)) (c.getD i none)

/-- per-rank maximum over the IMP:x data cards (all must have the same length) -/
def importanceCardsG (cards : List (List (Option α))) : Except String (List (Option α)) :=
  match cards with
  | [] => .ok []
  | [c] => .ok c
  | c :: cs =>
    if cs.any (·.length != c.length) then .error "unequal" else
    .ok ((List.range c.length).map fun i => rankMax c cs i)

/-- the importance of a cell: the maximum over the particles named by `IMP` keywords on its card when there are
any, otherwise entry `rank` (the position of the card in the cell block) of the combined data cards; `none` when
neither gives a value (`Cannot find importance`) -/
def cellImportance (kw : List α) (cards : List (Option α)) (rank : Nat) : Option α :=
  match kw with
  | v :: vs => some (vs.foldl (fun a b => if a < b then b else a) v)
  | [] => cards.getD rank none
end

def importanceCards (cards : List (List (Option Float))) : Except String (List (Option Float)) :=
  importanceCardsG cards

end T4V
