/-!
# Generic numeric layer (import-free)

All geometry definitions are written once over a scalar type `α` carrying only the
core notation classes, so that the *same* definitions run on `Float` (driver /
correspondence / monitor) and elaborate at an ordered field (theorems).
-/
namespace T4V

/-- transcendental operations used by the converter (`x**0.5`, `atan`, `cos(radians)`, …) -/
class Transc (α : Type) where
  sqrt : α → α
  atan : α → α
  tan : α → α
  cos : α → α
  sin : α → α
  pi : α

instance : Transc Float where
  sqrt := Float.sqrt
  atan := Float.atan
  tan := Float.tan
  cos := Float.cos
  sin := Float.sin
  pi := 3.141592653589793

structure V3 (α : Type) where
  x : α
  y : α
  z : α
deriving Repr, BEq, Inhabited

section
variable {α : Type} [Add α] [Sub α] [Mul α] [Div α] [Neg α] [OfNat α 0] [OfNat α 1]

def two : α := 1 + 1
def sq (a : α) : α := a * a

namespace V3
def dot (a b : V3 α) : α := a.x * b.x + a.y * b.y + a.z * b.z
def add (a b : V3 α) : V3 α := ⟨a.x + b.x, a.y + b.y, a.z + b.z⟩
def sub (a b : V3 α) : V3 α := ⟨a.x - b.x, a.y - b.y, a.z - b.z⟩
def smul (k : α) (a : V3 α) : V3 α := ⟨k * a.x, k * a.y, k * a.z⟩
def neg (a : V3 α) : V3 α := ⟨-a.x, -a.y, -a.z⟩
/-- `VectUtils.vect` (note the spelling of the middle component: `x2*z1 - x1*z2`) -/
def cross (a b : V3 α) : V3 α := ⟨a.y * b.z - a.z * b.y, b.x * a.z - a.x * b.z, a.x * b.y - a.y * b.x⟩
def norm2 (a : V3 α) : α := dot a a
def zero : V3 α := ⟨0, 0, 0⟩
def toList (a : V3 α) : List α := [a.x, a.y, a.z]
end V3

/-- 3×3 matrix, row-major -/
structure M3 (α : Type) where
  r1 : V3 α
  r2 : V3 α
  r3 : V3 α
deriving Repr, BEq, Inhabited

namespace M3
def mulVec (m : M3 α) (v : V3 α) : V3 α := ⟨m.r1.dot v, m.r2.dot v, m.r3.dot v⟩
def transpose (m : M3 α) : M3 α :=
  ⟨⟨m.r1.x, m.r2.x, m.r3.x⟩, ⟨m.r1.y, m.r2.y, m.r3.y⟩, ⟨m.r1.z, m.r2.z, m.r3.z⟩⟩
def id : M3 α := ⟨⟨1, 0, 0⟩, ⟨0, 1, 0⟩, ⟨0, 0, 1⟩⟩
def ofList : List α → Option (M3 α)
  | [a, b, c, d, e, f, g, h, i] => some ⟨⟨a, b, c⟩, ⟨d, e, f⟩, ⟨g, h, i⟩⟩
  | _ => none
def toList (m : M3 α) : List α := m.r1.toList ++ m.r2.toList ++ m.r3.toList
end M3
end

end T4V
