import T4V.Num
import T4V.Sexp
import T4V.Spec.T4
import T4V.Spec.Bool
import T4V.Spec.MCNP
import T4V.Spec.Monitor
