import T4V.Props.C01
import T4V.Props.C08
import T4V.Props.C11
import T4V.Props.C13
import T4V.Props.C17
