import T4V.Props.C01
import T4V.Props.C11
