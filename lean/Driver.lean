import T4V
open T4V

/-- one request per line, one response line each -/
def handle (ws : List String) : String :=
  match ws with
  | ["ping"] => "ok pong"
  | ["t4wf", hx] =>
      match unhex hx with
      | none => "err bad-hex"
      | some txt =>
        let f := T4File.read txt
        let r := f.report
        if r.ok then s!"ok wf surfs={f.surfs.length} vols={f.vols.length} comps={f.comps.length} bcs={f.bcs.length}"
        else "ok bad " ++ hex (toString (repr r))
  | ["t4dump", hx] =>
      -- what the Lean reader sees in a written file: surfaces (exact bit patterns) and volumes
      (match unhex hx with
       | none => "err bad-hex"
       | some txt =>
         let f := T4File.read txt
         let fl (xs : List Float) := ",".intercalate (xs.map fun v => toString v.toBits)
         let ss := f.surfs.map fun (i, s) =>
           s!"S:{i}:{s.kind.toString}:{fl s.ps}:" ++ (match s.tr with
             | some (t, m) => fl (t.toList ++ m.toList)
             | none => "-")
         let nat (xs : List Nat) := ",".intercalate (xs.map toString)
         let vs := f.vols.map fun v =>
           s!"V:{v.id}:{nat v.pluses}:{nat v.minuses}:" ++ (match v.op with
             | some (.union, ids) => "UNION," ++ nat ids
             | some (.inte, ids) => "INTE," ++ nat ids
             | none => "-") ++ s!":{if v.fictive then 1 else 0}"
         "ok " ++ " ".intercalate (ss ++ vs))
  | "monitor" :: hd :: ht :: wc :: eps :: pts =>
      match unhex hd >>= Sexp.parse >>= decodeDeck, unhex ht, parseFloat? eps with
      | some d, some txt, some e =>
        let f := T4File.read txt
        let withComp := wc == "1"
        let rec go : List String → List String → Nat → Nat → List String × Nat × Nat
          | x :: y :: z :: r, acc, nok, nskip =>
              match parseFloat? x, parseFloat? y, parseFloat? z with
              | some a, some b, some c =>
                match monitorPoint d f withComp e ⟨a, b, c⟩ with
                | .ok _ => go r acc (nok + 1) nskip
                | .skip _ => go r acc nok (nskip + 1)
                | .mismatch m t => go r (acc ++ [hex s!"p=({x},{y},{z}) mcnp={m} t4={t}"]) nok nskip
              | _, _, _ => go r (acc ++ [hex "bad point"]) nok nskip
          | _, acc, nok, nskip => (acc, nok, nskip)
        let (bad, nok, nskip) := go pts [] 0 0
        s!"ok agree={nok} skip={nskip} mismatch={bad.length} " ++ " ".intercalate (bad.take 5)
      | none, _, _ => "err bad-deck"
      | _, none, _ => "err bad-t4-hex"
      | _, _, none => "err bad-eps"
  | ["compile", hx] =>
      match unhex hx >>= Sexp.parse with
      | some s => runCompile s
      | none => "err bad-sexp"
  | ["post", hx] =>
      match unhex hx >>= Sexp.parse with
      | some s => runPost s
      | none => "err bad-sexp"
  | "trnorm" :: toks =>
      -- entries of a TR card after MIP (numbers, `j` for a placeholder) -> the 12 numbers of normalize_transform
      (match toks.mapM (fun t => if t == "j" then some none else (parseFloat? t).map some) with
       | none => "err bad-number"
       | some tr =>
         match normTransform (1e-10 : Float) tr with
         | .ok l => "ok " ++ " ".intercalate (l.map fun v => toString v.toBits)
         | .error .mMinusOne => "ok error m"
         | .error .malformed => "ok error malformed"
         | .error .zeroDivision => "ok error zerodiv")
  | "rescale" :: rho :: frs =>
      -- rescale_fractions on doubles: concentrations c_i = f_i * rho / sum f
      (match parseFloat? rho, frs.mapM parseFloat? with
       | some r, some fs => "ok " ++ " ".intercalate ((rescaleFractions fs r).map fun v => toString v.toBits)
       | _, _ => "err bad-number")
  | "hexaxial" :: nums =>
      -- hexLatticeBaseVectors, third vector: vertex, (p7, n7), (p8, n8), axis — 18 doubles
      (match nums.mapM parseFloat? with
       | some [vx, vy, vz, p7x, p7y, p7z, n7x, n7y, n7z, p8x, p8y, p8z, n8x, n8y, n8z, ax, ay, az] =>
           let r := hexAxialVector (α := Float) ⟨vx, vy, vz⟩ ⟨p7x, p7y, p7z⟩ ⟨n7x, n7y, n7z⟩ ⟨p8x, p8y, p8z⟩ ⟨n8x, n8y, n8z⟩ ⟨ax, ay, az⟩
           s!"ok {r.x.toBits} {r.y.toBits} {r.z.toBits}"
       | _ => "err bad-number")
  | ["latmodel", hx] =>
      match unhex hx >>= Sexp.parse with
      | some s => runLattice s
      | none => "err bad-sexp"
  | ["inline", hx] =>
      match unhex hx >>= Sexp.parse with
      | some s => runInline s
      | none => "err bad-sexp"
  | ["cellsplit", hx] =>
      -- cellcard.split on the one-line content of a cell card
      (match unhex hx with
       | some t =>
           (match CC.splitCell t.toList with
            | .ok p => s!"ok ={hex (String.ofList p.name)} ={hex (String.ofList p.mat)} ={hex (String.ofList p.geom)} ={hex (String.ofList p.opts)}"
            | .error .tooFew => "ok error tooFew"
            | .error .notFloat => "ok error notFloat"
            | .error .noMatch => "ok error noMatch")
       | none => "err bad-hex")
  | ["opttokens", hx] =>
      -- the options text of a cell card -> keyword tokens in reading order
      (match unhex hx with
       | some t => "ok " ++ " ".intercalate ((CC.optTokens t.toList).map fun w => "=" ++ hex (String.ofList w))
       | none => "err bad-hex")
  | ["surfsplit", hx] =>
      (match unhex hx with
       | some t =>
           (match CC.splitSurface t.toList with
            | some p => s!"ok ={hex (String.ofList p.name)} ={hex (String.ofList p.tr)} ={hex (String.ofList p.mn)} ={hex (String.ofList p.params)}"
            | none => "ok error noMatch")
       | none => "err bad-hex")
  | ["datasplit", hx] =>
      (match unhex hx with
       | some t =>
           (match CC.splitData t.toList with
            | some p => s!"ok ={hex (String.ofList p.typ)} ={hex (String.ofList p.name)} ={hex (String.ofList p.star)} ={hex (String.ofList p.params)}"
            | none => "ok error noMatch")
       | none => "err bad-hex")
  | ["geomcomp", hx] =>
      match unhex hx >>= Sexp.parse with
      | some s => runGeomComp s
      | none => "err bad-sexp"
  | "latarg" :: opts =>
      -- parse_lattice on the --lattice options (each in hex)
      (match opts.mapM unhex with
       | none => "err bad-hex"
       | some os =>
         match LA.parseLattice (os.map String.toList) with
         | .error e => "ok error " ++ e.name
         | .ok d => "ok " ++ " ".intercalate (d.map fun (c, rs) =>
             s!"{c}=" ++ ",".intercalate (rs.map fun (lo, hi) => s!"{lo}:{hi}")))
  | ["compmodel", hx] =>
      match unhex hx >>= Sexp.parse with
      | some s => runCompModel s
      | none => "err bad-sexp"
  | ["pottransform", hx] =>
      match unhex hx >>= Sexp.parse with
      | some s => runPotTransform s
      | none => "err bad-sexp"
  | ["complement", hx] =>
      match unhex hx >>= Sexp.parse with
      | some s => runComplement s
      | none => "err bad-sexp"
  | ["compmon", hx, ht] =>
      match unhex hx >>= Sexp.parse, unhex ht with
      | some s, some t => runCompMon s t
      | _, _ => "err bad-sexp"
  | ["blocks", hx] =>
      -- get_block_positions: the lines of the message / title / cell / surface / data blocks
      (match unhex hx with
       | some t =>
           let lines := (t.splitOn "\n").map String.toList
           let enc (o : Option (List (List Char))) : String :=
             match o with
             | none => "-"
             | some ls => "=" ++ hex (String.ofList (joinLines ls))
           (match getBlocks lines with
            | .ok b => s!"ok m{enc b.m} t{enc b.t} c{enc b.c} s{enc b.s} d{enc b.d}"
            | .error .spurious => "ok error spurious"
            | .error .empty => "ok error empty")
       | none => "err bad-hex")
  | ["normfloat", hx] =>
      match unhex hx with
      | some t => "ok " ++ hex (String.ofList (normalizeFloat t.toList))
      | none => "err bad-hex"
  | ["spellclass", hx] =>
      match unhex hx with
      | some t => (match spellClass t.toList with | some c => "ok " ++ hex (String.ofList c) | none => "ok none")
      | none => "err bad-hex"
  | ["elements"] => "ok " ++ " ".intercalate elementSymbols
  | ["cellimp", hx] =>
      -- (imp (cells (c v v …) …) (cards (card tok …) …)): the importance of every cell, in card order: the maximum of
      -- its IMP keywords if it has any, else the entry at its position of the per-rank maximum of the expanded cards
      (match unhex hx >>= Sexp.parse with
       | none => "err bad-sexp"
       | some s =>
         let cells : Option (List (List Float)) := (s.field? "cells").bind fun cs => cs.args.mapM fun c =>
           c.args.mapM fun a => a.atom? >>= parseFloat?
         let cards : Option (List (List String)) := (s.field? "cards").bind fun cs => cs.args.mapM fun c =>
           c.args.mapM fun a => a.atom?
         match cells, cards with
         | some cells, some cards =>
           (match cards.mapM fun toks => (match expandChecked none (toks.map classifyTok) with
                                          | .ok (r, _) => some r | .error _ => none) with
            | none => "ok error card"
            | some expanded =>
              match importanceCards expanded with
              | .error _ => "ok error unequal"
              | .ok combined =>
                "ok " ++ " ".intercalate ((List.range cells.length).map fun i =>
                  match cellImportance (cells.getD i []) combined i with
                  | some v => toString v.toBits
                  | none => "none"))
         | _, _ => "err bad-request")
  | "expand" :: expected :: toks =>
      let exp := if expected == "-" then none else expected.toNat?
      match expandChecked exp (toks.map classifyTok) with
      | .ok (r, c) => s!"ok {c} " ++ " ".intercalate (r.map fun x => match x with | some v => toString v.toBits | none => "J")
      | .error .index => "ok error index"
      | .error .typeErr => "ok error type"
      | .error .expected => "ok error expected"
      | .error (.value m) => "ok error value " ++ hex m
  | "bcmodel" :: items =>
      -- items: id:flaghex:parts
      let surfs := items.filterMap fun it =>
        match it.splitOn ":" with
        | [i, f, p] => do
            let id ← i.toNat?; let fl ← unhex f; let pp ← p.toNat?
            pure ({ id := id, flag := fl, parts := pp } : BCSurf)
        | _ => none
      (match bcEntries surfs with
       | .ok es => "ok " ++ " ".intercalate (es.map fun (i, k) => s!"{k}:{i}") ++ " | " ++
                     " ".intercalate ((bcTextLines es).map fun l => if l.isEmpty then "-" else hex l)
       | .error .macrobody => "ok error macrobody"
       | .error (.badFlag _) => "ok error badflag")
  | "surfmodel" :: mn :: ps =>
      -- elementary surface card -> signed list of TRIPOLI-4 surfaces (parameters as IEEE bit patterns)
      (match ps.mapM parseFloat? with
       | none => "err bad-number"
       | some xs =>
         match convertCard (1e-10 : Float) 1e-14 mn xs with
         | none => "ok none"
         | some coll => "ok " ++ " ".intercalate (coll.map fun (t, side) =>
             s!"{t.kind.toString}:{side}:" ++ ",".intercalate (t.ps.map fun v => toString v.toBits)))
  | "hextrav" :: first :: arr =>
      -- vertex traversal of hexVertices on the adjacency table of the cyclic arrangement `arr`
      (match first.toNat?, arr.mapM (·.toNat?) with
       | some f, some a =>
           match hexTraverse (adjOfCycle a) f with
           | some vs => "ok " ++ " ".intercalate (vs.map fun (i, j) => s!"{i}-{j}")
           | none => "ok none"
       | _, _ => "err bad-number")
  | "fillmodel" :: items =>
      -- items: id:univ:fill(-|n):mathex:rhohex:filltr(-|token):trcl(-|token,token…) in deck order -> leaves of every filled level-0 cell
      (let cells := items.filterMap fun it =>
         match it.splitOn ":" with
         | [i, u, f, m, r, ft, tc] => do
             let id ← i.toNat?; let un ← u.toNat?
             let fill ← if f == "-" then some none else f.toNat?.map some
             let mat ← unhex m; let rho ← unhex r
             let filltr ← if ft == "-" then some none else ft.toNat?.map some
             let trcl ← if tc == "-" then some [] else (tc.splitOn ",").mapM String.toNat?
             pure ({ id := id, univ := un, fill := fill, mat := mat, rho := rho, filltr := filltr, trcl := trcl } : FCell)
         | _ => none
       if cells.length != items.length then "err bad-item" else
       let tops := cells.filter fun c => c.univ == 0 && c.fill.isSome
       match tops.mapM (fillCells cells (cells.length + 2)) with
       | none => "ok none"
       | some lss => "ok " ++ " ".intercalate (lss.flatten.map fun l =>
           s!"{l.base};" ++ ",".intercalate (l.origin.map fun (a, b) => s!"{a}-{b}") ++ s!";{hex l.mat};{hex l.rho};"
             ++ ",".intercalate (l.moves.map toString)))
  | "volline" :: fict :: op :: rest =>
      -- volline <0|1> <op|-> p.. / m.. / ids..    ->  VolumeT4.__str__
      (let groups := (" ".intercalate rest).splitOn "/"
       let nums (s : String) := (s.splitOn " ").filterMap (·.toNat?)
       match groups with
       | [p, m, o] =>
           "ok " ++ hex (volLine (nums p) (nums m) (if op == "-" then none else some (op, nums o)) (fict == "1"))
       | _ => "err bad-groups")
  | ["cards", hx] =>
      -- one block of a deck -> the one-line contents of its cards (comments skipped)
      (match unhex hx with
       | none => "err bad-hex"
       | some txt =>
         -- str.splitlines on \n, \r\n, \r (the generator uses \n only)
         let lines := (txt.splitOn "\n").map (·.toList)
         let lines := if lines.getLast? == some [] then lines.dropLast else lines
         "ok " ++ " ".intercalate ((Lex.contents lines).map fun c => hex (String.ofList c)))
  | "kwmodel" :: toks =>
      -- option tokens of a cell card (lower-cased, '=' and parentheses already blanked) -> keyword record; `chk=`
      -- lists the numeric arguments of every FILL / TRCL keyword met, in order (each is checked when it is read, even
      -- if a later keyword replaces it)
      let chk := match groupTokens toks with
        | .ok items =>
            let parts := items.filterMap fun (it : Item) => match it with
              | .fill st _ ps => some (s!"{if st then 1 else 0}" ++ String.join (ps.map fun x => ";" ++ x))
              | .fillArr st _ _ ps => some (s!"{if st then 1 else 0}" ++ String.join (ps.map fun x => ";" ++ x))
              | .trcl st ps => some (s!"{if st then 1 else 0}" ++ String.join (ps.map fun x => ";" ++ x))
              | _ => none
            if parts.isEmpty then "-" else "|".intercalate parts
        | .error _ => "-"
      (match parseKeywords toks with
       | .error .pop => "ok error pop"
       | .error .badRange => "ok error badrange"
       | .error .arrayCount => "ok error arraycount"
       | .error .arrayShorthand => "ok outside-model arrayshorthand"
       | .error .badLat => "ok error badlat"
       | .ok k =>
         let o (x : Option String) := match x with | some v => v | none => "-"
         let imp := if k.imp.isEmpty then "-" else ",".intercalate (k.imp.map fun (p, v) => s!"{hex p}:{v}")
         let fill := match k.fill with
           | some (.simple st u ps) => s!"{if st then 1 else 0},{u}" ++ String.join (ps.map fun x => "," ++ x)
           | some (.arr st rs us ps) =>
               s!"A{if st then 1 else 0},{";".intercalate rs},{";".intercalate us}" ++ String.join (ps.map fun x => "," ++ x)
           | none => "-"
         let trcl := match k.trcl with
           | some (st, ps) => s!"{if st then 1 else 0}" ++ String.join (ps.map fun x => "," ++ x)
           | none => "-"
         s!"ok imp={imp} u={o k.u} mat={o k.mat} rho={o k.rho} lat={o k.lat} fill={fill} trcl={trcl} chk={chk}")
  | "trmodel" :: mn :: rest =>
      -- card carrying a transformation: 12 numbers (O, B) first, then the card's parameters
      (match rest.mapM parseFloat? with
       | none => "err bad-number"
       | some xs =>
         match Motion.ofList (xs.take 12) with
         | none => "err bad-motion"
         | some m =>
           match convertCardTr (1e-10 : Float) 1e-14 mn (xs.drop 12) m with
           | none => "ok none"
           | some coll => "ok " ++ " ".intercalate (coll.map fun (t, side) =>
               s!"{t.kind.toString}:{side}:" ++ ",".intercalate (t.ps.map fun v => toString v.toBits)))
  | "macromodel" :: mn :: ps =>
      (match ps.mapM parseFloat? with
       | none => "err bad-number"
       | some xs =>
         match convertMacro (1e-10 : Float) 1e-14 (if mn == "hex" then "rhp" else mn) xs (fun x => x.toUInt64.toNat) with
         | none => "ok none"
         | some coll => "ok " ++ " ".intercalate (coll.map fun (t, side) =>
             s!"{t.kind.toString}:{side}:" ++ ",".intercalate (t.ps.map fun v => toString v.toBits)))
  | ["boolmon", hx] =>
      match unhex hx >>= Sexp.parse with
      | some s => runBoolMon s
      | none => "err bad-sexp"
  | ["parsegeom", hx] =>
      match unhex hx with
      | none => "err bad-hex"
      | some txt =>
        match parseGeom txt with
        | .ok g => "ok " ++ encodeGeom g
        | .error .syntax => "ok error syntax"
        | .error .notInvertible => "ok error notInvertible"
        | .error .fuel => "ok error fuel"
  | ["normalize", hx] =>
      match unhex hx with
      | none => "err bad-hex"
      | some txt => "ok " ++ hex (String.ofList (normalize txt.toList))
  | _ => "err bad-op"

partial def loop (h : IO.FS.Stream) (out : IO.FS.Stream) : IO Unit := do
  let line ← h.getLine
  if line.isEmpty then return ()
  let ws := (line.trimAscii.toString.splitOn " ").filter (· ≠ "")
  out.putStrLn (handle ws)
  out.flush
  loop h out

def main : IO Unit := do loop (← IO.getStdin) (← IO.getStdout)
