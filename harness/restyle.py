"""MCNP-insignificant respelling of a deck text (C14): case, blanks and tabs, continuation style, comments,
message block, Fortran number spellings, data-card shorthand."""
import re

NUM = re.compile(r'^[-+]?(\d+\.?\d*|\.\d+)([eE][-+]?\d+)?$')


def logical_cards(text):
    """canonical text from deck.render_deck → (title, [cells], [surfaces], [data]) as one-line cards"""
    blocks = text.split('\n\n')
    out = []
    for bi, b in enumerate(blocks[:3]):
        cards = []
        for line in b.split('\n'):
            if not line.strip():
                continue
            if line.startswith('     ') and cards:
                cards[-1] += ' ' + line.strip()
            else:
                cards.append(line.rstrip())
        out.append(cards)
    while len(out) < 3:
        out.append([])
    title = out[0][0]
    return title, out[0][1:], out[1], out[2]


def respell_number(tok, rng):
    if not NUM.match(tok):
        return tok
    v = float(tok)
    forms = [tok]
    if 'e' not in tok.lower():
        if '.' in tok:
            forms += [tok + '0', tok + '+0', tok + 'e0', tok + 'E+0', tok + 'd0', tok + 'D0']
            # shift the point: 2.5 → 25-1, .25+1
            ip, fp = tok.lstrip('+-').split('.')
            sign = '-' if tok.startswith('-') else ''
            if fp and len(ip + fp) <= 12:
                forms += [sign + (ip + fp).lstrip('0') + '-%d' % len(fp)] if (ip + fp).strip('0') else []
            if ip == '0' and fp:
                # no leading zero: -0.5 → -.5, -.5+0, -.5e0
                forms += [sign + '.' + fp, sign + '.' + fp + '+0', sign + '.' + fp + 'e0', sign + '.' + fp + 'D+00']
            if ip not in ('', '0') and len(ip) <= 3:
                forms += [sign + '.' + ip + fp + '+%d' % len(ip), sign + '0.' + ip + fp + 'E%d' % len(ip)]
        else:
            forms += [tok + '.', tok + '.0', tok + '+0', tok + 'e0', tok + 'D+0']
    else:
        forms += [tok.replace('e', 'E'), tok.replace('e', 'd'), tok.replace('e', 'D'),
                  re.sub(r'[eE]([-+])', r'\1', tok)]
    forms = [f for f in forms if _same(f, v)]
    return rng.choice(forms)


def _same(f, v):
    try:
        g = f.lower().replace('d', 'e')
        if not re.search('e', g):
            g = re.sub(r'(?<=[0-9.])([-+]\d+)$', r'e\1', g)
        return float(g) == v
    except ValueError:
        return False


def respell_card_numbers(card, kind, rng, p=0.5):
    toks = card.split(' ')
    if kind == 's':
        # name [tr] mnemonic params…: only the parameters
        seen_mn = False
        out = []
        for t in toks:
            if not seen_mn:
                out.append(t)
                if re.match(r'^[a-zA-Z/]+$', t):
                    seen_mn = True
            else:
                out.append(respell_number(t, rng) if t and rng.random() < p else t)
        return ' '.join(out)
    if kind == 'd':
        head = toks[0].lower()
        if head.startswith(('tr', '*tr', 'imp')):
            return ' '.join([toks[0]] + [respell_number(t, rng) if t and rng.random() < p else t for t in toks[1:]])
    return card


def shorthand(card, rng):
    """nR for repeated entries in TR / IMP data cards"""
    toks = card.split(' ')
    head = toks[0].lower()
    if not head.startswith(('tr', '*tr', 'imp')):
        return card
    out = [toks[0]]
    vals = toks[1:]
    i = 0
    while i < len(vals):
        j = i
        while j + 1 < len(vals) and vals[j + 1] == vals[i] and NUM.match(vals[i] or 'x'):
            j += 1
        out.append(vals[i])
        run = j - i
        if run >= 1 and rng.random() < 0.6:
            out.append('%d%s' % (run, rng.choice('rR')) if run > 1 or rng.random() < .5 else rng.choice('rR'))
            i = j + 1
        else:
            i += 1
    return ' '.join(out)


def recase(card, rng):
    mode = rng.choice(['upper', 'lower', 'mixed', 'keep'])
    if mode == 'upper':
        return card.upper()
    if mode == 'lower':
        return card.lower()
    if mode == 'mixed':
        return ''.join(c.upper() if rng.random() < .5 else c.lower() for c in card)
    return card


def reblank(card, rng):
    """blank runs → 1–3 blanks or a tab (tabs never first on the line)"""
    parts = card.split(' ')
    out = parts[0]
    for p in parts[1:]:
        if p == '':
            out += ' '
            continue
        out += rng.choice([' ', ' ', '  ', '   ', '\t', ' \t']) + p
    return out


def break_lines(card, rng, comments=True):
    """split one logical card into physical lines"""
    toks = [t for t in re.split(r'( +|\t+)', card)]
    # breakable positions are the blank separators
    lines = []
    cur = ''
    style = rng.choice(['blanks', 'amp', 'mixed'])
    i = 0
    pieces = []
    cur = ''
    for t in toks:
        if t.strip() == '' and t != '' and cur and rng.random() < 0.18:
            pieces.append(cur)
            cur = ''
        else:
            cur += t
    pieces.append(cur)
    pieces = [p for p in pieces if p.strip()]
    out = []
    for k, piece in enumerate(pieces):
        piece = piece.strip(' \t') if k else piece.rstrip(' \t')
        if k == 0:
            line = piece
        else:
            use_amp = style == 'amp' or (style == 'mixed' and rng.random() < .5)
            if use_amp:
                out[-1] = out[-1] + rng.choice([' &', '  &', ' & '])
                line = ' ' * rng.randint(0, 4) + piece if rng.random() < .7 else ' ' * rng.randint(5, 8) + piece
            else:
                line = rng.choice([' ' * rng.randint(5, 9), '\t', ' \t', '     ']) + piece
        out.append(line)
    if comments:
        res = []
        for k, line in enumerate(out):
            if k > 0 and rng.random() < 0.2:
                res.append(rng.choice(['c', 'C', 'c a comment inside a card', '  c  indented', '    C x=1 $ & tricky', 'c\ttab']))
            if rng.random() < 0.2 and not line.rstrip().endswith('&'):
                line = line + rng.choice([' $ trailing comment', '$comment', '  $ 1 2 3 like but & more'])
            elif rng.random() < 0.3 and line.rstrip().endswith('&'):
                line = line + rng.choice([' $ after the ampersand', ''])
            res.append(line)
        out = res
    return out


def restyle(text, rng, features=None):
    feats = features or {k: rng.random() < 0.7 for k in ('case', 'blank', 'break', 'comment', 'message', 'number', 'short', 'indent')}
    if features is None:
        # how the file ends: blank-line terminator + newline (as rendered), a bare newline, nothing at all after the last
        # character of the last card, or a few blank lines
        feats['eof'] = rng.choice(['blank', 'blank', 'newline', 'none', 'none', 'many'])
    title, cells, surfs, data = logical_cards(text)
    lines = []
    if feats.get('message'):
        lines += ['message: outp=xyz' + ('' if rng.random() < .5 else ' runtpe=abc'), '']
    lines.append(title)

    def block(cards, kind):
        out = []
        for card in cards:
            c = card
            is_mat = kind == 'd' and re.match(r'^\s*m\d', c, re.I)
            if feats.get('short') and kind == 'd':
                c = shorthand(c, rng)
            if feats.get('number') and not is_mat:
                c = respell_card_numbers(c, kind, rng)
            if feats.get('case'):
                c = recase(c, rng)
            if feats.get('blank'):
                c = reblank(c, rng)
            if feats.get('break'):
                mine = break_lines(c, rng, comments=feats.get('comment'))
            else:
                from .deck import wrap_card
                mine = wrap_card(c).split('\n')
            if feats.get('indent') and mine and rng.random() < 0.3 and not mine[0].startswith((' ', '\t')):
                # a card may start anywhere in columns 1–5
                mine[0] = ' ' * rng.randint(1, 4) + mine[0]
            out += mine
            if feats.get('comment') and rng.random() < 0.25:
                out.append(rng.choice(['c between cards', 'C', '   c   ---- ', 'c 1 2 3 4']))
        return out
    lines += block(cells, 'c')
    lines.append('')
    lines += block(surfs, 's')
    lines.append('')
    dlines = block(data, 'd')
    lines += dlines
    lines.append('')
    text = '\n'.join(lines)
    eof = feats.get('eof', 'blank')
    if eof != 'blank':
        body = text.rstrip('\n')
        if eof == 'none' and feats.get('comment') and body.rsplit('\n', 1)[-1].lstrip().lower().startswith('c '):
            eof = 'newline'
        text = body + {'newline': '\n', 'none': '', 'many': '\n\n \n\t\n'}[eof]
    return text, feats
