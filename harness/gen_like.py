"""LIKE n BUT cells: text uses the abbreviation, the abstract deck carries the expanded cell."""
import copy
from . import deck as D
from . import gen_geom as G


def imp_text(parts, rng, only=None):
    """spell per-particle importances: imp:n,p=v (any order of the designators) or one keyword per particle"""
    ps = [p for p in ('n', 'p') if only is None or p in only]
    f = D.fnum
    if len(ps) == 2 and parts['n'] == parts['p'] and rng.random() < 0.5:
        return 'imp:%s=%s' % (rng.choice(['n,p', 'p,n']), f(parts['n']))
    if rng.random() < 0.5:
        ps = ps[::-1]
    return ' '.join('imp:%s=%s' % (p, f(parts[p])) for p in ps)


def add_like_cells(d, rng, n=None, chain_p=0.5, keys=None, multi_p=0.35):
    """append 1–3 LIKE cells (possibly LIKE-of-LIKE) to deck `d`; returns the new cells"""
    n = n or rng.randint(1, 3)
    multi = rng.random() < multi_p and d.imp_cards is None
    if multi:
        # importances for two particle types; the cell's importance is their maximum
        for c in d.cells:
            if 'imp_parts' not in c.hints and 'raw' not in c.hints:
                parts = {'n': c.imp, 'p': c.imp}
                if rng.random() < 0.4:
                    parts[rng.choice(['n', 'p'])] = 0
                c.hints['imp_parts'] = parts
                c.hints['imp_text'] = imp_text(parts, rng)
    keys = keys or ['mat', 'rho', 'trcl', 'imp', 'u', 'fill']
    new = []
    universes = sorted(set(c.u for c in d.cells if c.u != 0))
    next_id = max(c.id for c in d.cells) + 1
    bases = [c for c in d.cells if c.lat is None]
    for _ in range(n):
        pool = bases + ([x for x in new] if rng.random() < chain_p else [])
        base = rng.choice(pool)
        c = D.Cell(next_id, base.expr, mat=base.mat, rho=base.rho, imp=base.imp, u=base.u,
                   fill=copy.deepcopy(base.fill), lat=base.lat, trcl=base.trcl)
        next_id += rng.choice([1, 2])
        # the explicit card must spell inherited transformations exactly as the base card does
        for k in ('fill_num', 'fill_star', 'trcl_num', 'trcl_star', 'fill_by_option', 'imp_parts', 'imp_text'):
            if k in base.hints:
                c.hints[k] = base.hints[k]
        opts = []
        ks = rng.sample(keys, rng.randint(1, min(4, len(keys))))
        # a moved copy is the usual reason for LIKE BUT: prefer a TRCL override
        if 'trcl' not in ks and rng.random() < 0.6:
            ks.append('trcl')
        for k in ks:
            if k == 'mat':
                if base.mat == 0:
                    continue
                c.mat = rng.choice([1, 2, 3])
                opts.append('mat=%d' % c.mat)
            elif k == 'rho':
                if c.mat == 0:
                    continue
                c.rho = rng.choice(['-3.5', '-4.5', '0.07', '-1.25', '-9.', '2.5-2'])
                if rng.random() < 0.3 and base.rho is not None:
                    # a density a few 1e-4 away from the one of cell n (same sign): another composition all the same
                    try:
                        from MIP.mip.utils import to_float
                        b0 = to_float(base.rho)
                        c.rho = repr(round(b0 + rng.choice([1, -1]) * rng.choice([2e-4, 5e-4, 8e-4]) * (1 if b0 > 0 else -1) * 1, 7))
                        if (to_float(c.rho) > 0) != (b0 > 0) or to_float(c.rho) == b0:
                            c.rho = repr(round(b0 * 1.0003, 7))
                    except Exception:  # noqa
                        pass
                opts.append('rho=%s' % c.rho)
            elif k == 'trcl':
                m, cls = G.random_motion(rng, rng.choice(['id', 'perm', 'pyth']))
                c.trcl = m
                c.hints.pop('trcl_num', None)
                c.hints.pop('trcl_star', None)
                opts.append('trcl=(%s)' % D.inline_tr(m))
            elif k == 'imp' and multi and 'imp_parts' in base.hints:
                parts = dict(base.hints['imp_parts'])
                which = rng.choice([['n'], ['p'], ['n', 'p'], ['n', 'p']])
                for p_ in which:
                    parts[p_] = rng.choice([0, 0, 1, 2])
                c.imp = max(parts.values())
                c.hints['imp_parts'] = parts
                c.hints['imp_text'] = imp_text(parts, rng)
                opts.append(imp_text(parts, rng, only=which))
            elif k == 'imp':
                c.imp = rng.choice([0, 1, 2])
                opts.append('imp:n=%s' % D.fnum(c.imp))
            elif k == 'u' and universes and base.u != 0:
                c.u = rng.choice(universes)
                opts.append('u=%d' % c.u)
            elif k == 'fill' and base.fill is not None and 'u' in base.fill and universes:
                cand = [u for u in universes if u != base.u]
                if not cand:
                    continue
                c.fill = {'u': rng.choice(cand), 'tr': None}
                c.hints.pop('fill_num', None)
                c.hints.pop('fill_star', None)
                opts.append('fill=%d' % c.fill['u'])
        if not opts:
            if 'imp_parts' in c.hints:
                # only the neutron importance is overridden: the other particle types keep what the copied cell has
                parts = dict(c.hints['imp_parts'])
                parts['n'] = 1 if parts.get('n') != 1 else 2
                c.hints['imp_parts'] = parts
                c.hints['imp_text'] = imp_text(parts, rng)
                c.imp = max(parts.values())
                opts.append('imp:n=%s' % D.fnum(parts['n']))
            else:
                c.imp = 1 if base.imp != 1 else 2
                opts.append('imp:n=%s' % D.fnum(c.imp))
        rng.shuffle(opts)
        kw = rng.choice(['like', 'LIKE', 'Like'])
        bt = rng.choice(['but', 'BUT'])
        c.hints['raw'] = '%d %s %d %s %s' % (c.id, kw, base.id, bt, ' '.join(opts))
        c.hints['like_of'] = base.id
        d.cells.append(c)
        new.append(c)
    return new


def expanded_copy(d):
    """the same deck with every LIKE card written out explicitly"""
    e = copy.deepcopy(d)
    for c in e.cells:
        if 'raw' in c.hints:
            del c.hints['raw']
    return e
