"""TatSu engine shim.

The installed TatSu (5.24) compiles MIP/geom/grammars/geom.ebnf into a correct grammar model,
but its parse engine fails on every input in this sandbox, so no end-to-end conversion runs.
This module replaces ONLY the third-party engine: a small PEG interpreter (ordered choice,
seed-growing left recursion, TatSu's AST rule "all named keys present, missing = None",
per-rule semantic actions) that walks the grammar model TatSu itself produced from the
repository's grammar file and calls the repository's real GeomSemantics.  It is installed
in-process by assigning MIP.geom.parsegeom.parser; /repo is not modified.  normalize(),
geom.ebnf and semantics.py stay live, so changes there are observed.
"""
import re
import tatsu
from tatsu.ast import AST


class Fail(Exception):
    pass


class ParseError(tatsu.exceptions.ParseException):
    pass


class ShimParser:
    def __init__(self, grammar_text):
        self.model = tatsu.compile(grammar_text)
        self.rules = {r.name: r for r in self.model.rules}
        self.names = {r.name: self._names(r.exp) for r in self.model.rules}
        self._re = {}
        self.leftclos = self._left_closure()

    def _names(self, e):
        t = type(e).__name__
        out = []
        if t == 'Named':
            out.append(e.name)
        v = getattr(e, 'exp', None)
        if v is not None and not isinstance(v, str):
            out += self._names(v)
        for attr in ('sequence', 'options'):
            v = getattr(e, attr, None)
            if v:
                for x in v:
                    out += self._names(x)
        return out

    # ---- static analysis used only to limit memo invalidation during seed growing
    def _nullable_exp(self, e, nullable):
        t = type(e).__name__
        if t == 'Token':
            return e.token == ''
        if t == 'Pattern':
            return re.compile(e.pattern).match('') is not None
        if t == 'EOF':
            return True
        if t == 'Call':
            return e.name in nullable
        if t in ('Named', 'Option'):
            return self._nullable_exp(e.exp, nullable)
        if t == 'Choice':
            return any(self._nullable_exp(o, nullable) for o in e.options)
        if t == 'Sequence':
            return all(self._nullable_exp(x, nullable) for x in e.sequence)
        return True   # unknown construct: be conservative

    def _first_calls(self, e, nullable):
        t = type(e).__name__
        if t == 'Call':
            return {e.name}
        if t in ('Named', 'Option'):
            return self._first_calls(e.exp, nullable)
        if t == 'Choice':
            out = set()
            for o in e.options:
                out |= self._first_calls(o, nullable)
            return out
        if t == 'Sequence':
            out = set()
            for x in e.sequence:
                out |= self._first_calls(x, nullable)
                if not self._nullable_exp(x, nullable):
                    break
            return out
        if t in ('Token', 'Pattern', 'EOF'):
            return set()
        # unknown construct: every rule may be called first
        return set(self.rules)

    def _left_closure(self):
        nullable = set()
        changed = True
        while changed:
            changed = False
            for r in self.model.rules:
                if r.name not in nullable and self._nullable_exp(r.exp, nullable):
                    nullable.add(r.name)
                    changed = True
        first = {r.name: self._first_calls(r.exp, nullable) for r in self.model.rules}
        clos = {n: set(v) | {n} for n, v in first.items()}
        changed = True
        while changed:
            changed = False
            for n in clos:
                new = set(clos[n])
                for m in list(clos[n]):
                    new |= clos.get(m, set())
                if new != clos[n]:
                    clos[n] = new
                    changed = True
        return clos

    def parse(self, text, semantics=None, **kw):
        self.text = text
        self.sem = semantics
        self.memo = {}
        start = self.model.rules[0].name
        try:
            _pos, val = self.call(start, 0)
        except Fail as e:
            raise ParseError(str(e))
        except RecursionError:
            raise ParseError('recursion limit')
        return val

    def call(self, name, pos):
        key = (name, pos)
        if key in self.memo:
            r = self.memo[key]
            if r is None:
                raise Fail(f'{name}@{pos}')
            return r
        self.memo[key] = None  # seed: fail
        best = None
        while True:
            try:
                res = self.apply_rule(name, pos)
            except Fail:
                break
            if best is not None and res[0] <= best[0]:
                break
            best = res
            self.memo[key] = best
            # Results memoised while the seed was growing may depend on it only if they start at
            # the same position (left recursion consumes nothing; later positions never call back).
            # …and only if the growing rule can be reached from them without consuming input.
            for k in [k for k in self.memo if k != key and k[1] == pos and name in self.leftclos.get(k[0], (name,))]:
                del self.memo[k]
        if best is None:
            self.memo[key] = None
            raise Fail(f'{name}@{pos}')
        return best

    def apply_rule(self, name, pos):
        rule = self.rules[name]
        env = {}
        pos2, cst = self.ev(rule.exp, pos, env)
        names = self.names[name]
        node = AST({n: env.get(n) for n in names}) if names else cst
        if self.sem is not None:
            f = getattr(self.sem, name, None)
            if f is None:
                f = getattr(self.sem, '_default', None)
            if f is not None:
                node = f(node)
        return pos2, node

    def ev(self, e, pos, env):
        t = type(e).__name__
        if t == 'Choice':
            for opt in e.options:
                env2 = {}
                try:
                    p, v = self.ev(opt, pos, env2)
                    env.update(env2)
                    return p, v
                except Fail:
                    continue
            raise Fail('choice')
        if t == 'Option':
            return self.ev(e.exp, pos, env)
        if t == 'Sequence':
            vals = []
            for x in e.sequence:
                pos, v = self.ev(x, pos, env)
                if v is not None:
                    vals.append(v)
            return pos, (vals[0] if len(vals) == 1 else (vals or None))
        if t == 'Named':
            p, v = self.ev(e.exp, pos, env)
            env[e.name] = v
            return p, v
        if t == 'Call':
            return self.call(e.name, pos)
        if t == 'Token':
            if self.text.startswith(e.token, pos):
                return pos + len(e.token), e.token
            raise Fail('tok')
        if t == 'Pattern':
            rx = self._re.get(e.pattern)
            if rx is None:
                rx = self._re[e.pattern] = re.compile(e.pattern)
            m = rx.match(self.text, pos)
            if not m:
                raise Fail('pat')
            return m.end(), m.group()
        if t == 'EOF':
            if pos == len(self.text):
                return pos, None
            raise Fail('eof')
        raise NotImplementedError(t)


def install():
    import MIP.geom.parsegeom as pg
    if not isinstance(pg.parser, ShimParser):
        pg.parser = ShimParser(pg.grammar)
    return pg.parser
