"""fresh-process conversion: python -m harness.subconv <deck file> <out file> [args…]"""
import os
import sys

VERIF = os.path.dirname(os.path.dirname(os.path.abspath(__file__)))
sys.path.insert(0, VERIF)


def main():
    from harness import impl
    deck, out = sys.argv[1], sys.argv[2]
    text = open(deck).read()
    res = impl.convert(text, sys.argv[3:])
    with open(out, 'w') as f:
        if res.ok:
            f.write(res.t4)
        else:
            f.write('EXCEPTION %s: %s\n' % (res.exc_type, res.exc_msg))
    return 0


if __name__ == '__main__':
    sys.exit(main())
