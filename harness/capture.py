"""Run a conversion while recording the inputs/outputs of the pipeline stages that the Lean
model mirrors (run-time wrapping of /repo's functions; /repo itself is not modified).
If a wrapped name no longer exists the stage is reported as 'anchor missing' and skipped."""
import copy
from . import impl


def geom_sexp(t):
    """Python geometry tree → wire S-expression (exact structure)"""
    from MIP.geom.semantics import Surface
    from t4_geom_convert.Kernel.Volume.CellMCNP import CellRef
    if isinstance(t, Surface):
        if t.sub is None:
            return '(s %d)' % t.surface
        return '(f %d %d)' % (t.surface, t.sub)
    if isinstance(t, CellRef):
        return '(r %d)' % int(t.cell)
    if isinstance(t, int):
        return '(s %d)' % t
    if isinstance(t, (tuple, list)):
        if t[0] == '^':
            return '(x %d)' % int(t[1])
        op = {'*': 'i', ':': 'u'}.get(t[0])
        if op is None:
            raise ValueError('unknown operator %r' % (t[0],))
        return '(%s %s)' % (op, ' '.join(geom_sexp(a) for a in t[1:]))
    raise ValueError('unknown node %r' % (t,))


def vol_sexp(k, v):
    ops = ''
    if v.ops is not None:
        ops = ' (op %s %s)' % ('U' if v.ops[0] == 'UNION' else 'I', ' '.join(str(x) for x in v.ops[1]))
    o = ' (o %s)' % ' '.join('(%d %d)' % (a, b) for a, b in v.idorigin)
    return '(vol %d (p %s) (m %s)%s%s %s)' % (
        k, ' '.join(str(x) for x in sorted(v.pluses)), ' '.join(str(x) for x in sorted(v.minuses)), ops, o,
        'F' if v.fictive else 'R')


def vols_struct(dic):
    """DictVolumeT4 → {id: (pluses, minuses, ops, origin, fictive)}"""
    out = {}
    for k, v in dic.items():
        out[int(k)] = (tuple(sorted(v.pluses)), tuple(sorted(v.minuses)),
                       None if v.ops is None else (v.ops[0], tuple(v.ops[1])),
                       tuple((int(a), int(b)) for a, b in v.idorigin), bool(v.fictive))
    return out


def surf_key(s):
    """definition key mirroring SurfaceT4.__eq__ (type, parameters, transform; == on floats, so -0.0 = 0.0)"""
    tr = None
    if s.transform is not None:
        tr = (tuple(float(x) + 0.0 for x in s.transform[0].flat), tuple(float(x) + 0.0 for x in s.transform[1].flat))
    return repr((s.type_surface.name, tuple(float(x) + 0.0 for x in s.param_surface), tr)).encode().hex()


class Capture:
    def __init__(self):
        self.missing = []
        self.complement_in = None     # [(id, isLattice, geom sexp)]
        self.complement_out = []      # [(id, geom sexp)]
        self.compile_in = None
        self.compile_keys = []
        self.vols_before_post = None
        self.surfs_before_post = None
        self.union_ids = None
        self.vols_after_post = None
        self.surfs_after_post = None
        self.cells_after = None       # {id: dict} of the final mcnp cell dictionary
        self.bc_in = None             # [(id, flag, parts)] of the MCNP surface dictionary
        self.inline_in = None         # (max score, [(id, universe, geom sexp)]) before inline_cells
        self.inline_out = None        # [(id, geom sexp)] after
        self.lattices = []            # one dict per develop_lattice call: inputs and the cells it created
        self.fill_frames = {}         # cell -> (token of its FILL transformation | None, [tokens of its TRCLs]) as pot_fill saw it
        self.fill_moves = {}          # cell created by pot_fill -> tokens of the transformations its filler went through
        self.geomcomp = None          # constructGeomCompT4: {'request': sexp, 'expected': str}
        self.pt_calls = []            # top-level cell_transform / pot_transform calls: {'request': sexp, 'expected': str}
        self.written = None           # what writeT4Geometry was handed: {'surfs': {id: (kind, params, tr)}, 'vols': {...}, 'skipped': [...]}
        self.error = None


def convert_capture(deck_text, args=()):
    impl.ensure()
    cap = Capture()
    import t4_geom_convert.Kernel.Volume.CellConversion as CC
    import t4_geom_convert.Kernel.FileHandlers.Writer.WriteT4Geometry as WG
    import t4_geom_convert.main as M
    saved = []

    import functools
    import inspect

    def argsof(orig, args, kwargs):
        """the arguments of a call by parameter name, whatever way they were passed; {} when the call does not fit the
        signature we know (a refactored function: the capture is skipped, never the call)"""
        try:
            b = inspect.signature(orig).bind(*args, **kwargs)
            b.apply_defaults()
            return dict(b.arguments)
        except Exception:  # noqa
            return {}

    def patch(obj, name, make):
        if not hasattr(obj, name):
            cap.missing.append('%s.%s' % (getattr(obj, '__name__', obj), name))
            return
        orig = getattr(obj, name)
        w = make(orig)
        try:
            w = functools.wraps(orig)(w)
        except Exception:  # noqa
            pass
        setattr(obj, name, w)
        saved.append((obj, name, orig))

    depth = {'compl': 0, 'conv': 0}

    def mk_compl(orig):
        def pot_complement(self, *args, **kwargs):
            top = depth['compl'] == 0
            if top and cap.complement_in is None:
                try:
                    cap.complement_in = [(int(k), 1 if c.lattice is not None else 0, geom_sexp(c.geometry))
                                         for k, c in self.dic_cell_mcnp.items()]
                except Exception as e:  # noqa
                    cap.error = 'complement-encode: %r' % (e,)
            depth['compl'] += 1
            try:
                res = orig(self, *args, **kwargs)
            finally:
                depth['compl'] -= 1
            if top:
                try:
                    cap.complement_out.append(geom_sexp(res))
                except Exception as e:  # noqa
                    cap.error = 'complement-encode: %r' % (e,)
            return res
        return pot_complement

    def mk_conv(orig):
        def pot_convert(self, *args, **kwargs):
            top = depth['conv'] == 0
            a_ = argsof(orig, (self,) + args, kwargs) if top else {}
            cell, matching, union_ids = a_.get('cell'), a_.get('matching'), a_.get('union_ids')
            if top and (cell is None or matching is None or union_ids is None):
                cap.error = 'compile-encode: pot_convert called with other parameters'
                top = False
            if top:
                if cap.compile_in is None:
                    try:
                        cap.compile_in = dict(
                            next=int(self.new_cell_key), union=(int(union_ids[0]), int(union_ids[1])),
                            matching=[(int(k), [int(x) for x in v]) for k, v in matching.items()],
                            cells=[(int(k), [(int(a), int(b)) for a, b in c.idorigin], geom_sexp(c.geometry))
                                   for k, c in self.dic_cell_mcnp.items()])
                    except Exception as e:  # noqa
                        cap.error = 'compile-encode: %r' % (e,)
                key = None
                for k, c in self.dic_cell_mcnp.items():
                    if c is cell:
                        key = int(k)
                        break
                cap.compile_keys.append(key)
            depth['conv'] += 1
            try:
                return orig(self, *args, **kwargs)
            finally:
                depth['conv'] -= 1
        return pot_convert

    def mk_cv(orig):
        def construct_volume_t4(*a, **kw):
            res = orig(*a, **kw)
            try:
                dic_vol, mcnp_dict, surf_numbering, skipped, union_ids = res
                cap.vols_before_post = vols_struct(dic_vol)
                cap.surfs_before_post = [(int(k), surf_key(s)) for k, s in surf_numbering.items()]
                cap.union_ids = (int(union_ids[0]), int(union_ids[1]))
            except Exception as e:  # noqa
                cap.error = 'construct-capture: %r' % (e,)
            return res
        return construct_volume_t4

    def mk_geo(orig):
        def convertMCNPGeometry(*a, **kw):
            res = orig(*a, **kw)
            try:
                dic_surf_mcnp, dic_surface_t4, dic_volume, mcnp_new_dict, skipped = res
                cap.bc_in = [(int(k), str(v[0][0].boundary_cond), len(v)) for k, v in dic_surf_mcnp.items()]
                cap.vols_after_post = vols_struct(dic_volume)
                cap.surfs_after_post = sorted(int(k) for k in dic_surface_t4.keys())
                cap.cells_after = {int(k): dict(mat=str(c.materialID), rho=c.density, imp=c.importance,
                                                u=int(c.universe), filled=c.fillid is not None,
                                                fillid=(int(c.fillid) if isinstance(c.fillid, (int, str)) and str(c.fillid).lstrip('-').isdigit() else (None if c.fillid is None else 'array')),
                                                lat=bool(c.lattice),
                                                origin=[(int(a), int(b)) for a, b in (c.idorigin or []) if isinstance(a, int) or str(a).isdigit()] if all(isinstance(x, tuple) and len(x) == 2 for x in (c.idorigin or [])) else None)
                                   for k, c in mcnp_new_dict.items()}
            except Exception as e:  # noqa
                cap.error = 'geometry-capture: %r' % (e,)
            return res
        return convertMCNPGeometry

    def mk_inline(orig):
        def inline_cells(*args, **kwargs):
            a_ = argsof(orig, args, kwargs)
            dic, max_inline_score = a_.get('dic'), a_.get('max_inline_score')
            try:
                cap.inline_in = (float(max_inline_score),
                                 [(int(k), int(c.universe), geom_sexp(c.geometry)) for k, c in dic.items()])
            except Exception as e:  # noqa
                cap.error = 'inline-capture: %r' % (e,)
            res = orig(*args, **kwargs)
            try:
                cap.inline_out = [(int(k), geom_sexp(c.geometry)) for k, c in dic.items()]
            except Exception as e:  # noqa
                cap.error = 'inline-capture: %r' % (e,)
            return res
        return inline_cells

    def mk_lat(orig):
        def develop_lattice(self, *args, **kwargs):
            rec = None
            try:
                key = argsof(orig, (self,) + args, kwargs)['key']
                cell = self.dic_cell_mcnp[key]
                if cell.lattice is not None:
                    from t4_geom_convert.Kernel.Volume.Lattice import squareLatticeBaseVectors, hexLatticeBaseVectors
                    surfaces = self.extract_surfaces(cell)
                    try:
                        base = (squareLatticeBaseVectors if cell.lattice == 1 else hexLatticeBaseVectors)(surfaces)
                        base = [[float(x) for x in v] for v in base]
                    except Exception:  # noqa
                        base = None
                    dom = cell.fillid
                    rec = dict(key=int(key), kind=int(cell.lattice), base=base,
                               bounds=[(int(a), int(b)) for a, b in dom.bounds],
                               spec=[int(u) for u in dom.spec], univ=int(cell.universe),
                               filltr=[float(x) for x in cell.filltr] if cell.filltr else None,
                               trcl=[[float(x) for x in t] for t in (cell.trcl or [])], elements=[], error=None)
                    orig_ct = self.cell_transform

                    def ct(*a2, **k2):
                        nk = orig_ct(*a2, **k2)
                        try:
                            b2 = argsof(orig_ct, a2, k2)
                            if b2.get('cell_key') == key and b2.get('cache') is False:
                                rec['elements'].append((int(nk), [float(x) for x in b2['transform'][:3]]))
                        except Exception as e:  # noqa
                            cap.error = 'lattice-capture: %r' % (e,)
                        return nk
                    self.cell_transform = ct
            except Exception as e:  # noqa
                cap.error = 'lattice-capture: %r' % (e,)
                rec = None
            try:
                return orig(self, *args, **kwargs)
            except Exception as e:
                if rec is not None:
                    rec['error'] = type(e).__name__
                raise
            finally:
                if rec is not None:
                    try:
                        del self.cell_transform
                    except Exception:  # noqa
                        pass
                    out = []
                    for nk, tr in rec['elements']:
                        c = self.dic_cell_mcnp.get(nk)
                        if c is None:
                            continue
                        out.append(dict(transl=tr, fill=None if c.fillid is None else int(c.fillid),
                                        filltr=[float(x) for x in (c.filltr or [])]))
                    rec['elements'] = out
                    cap.lattices.append(rec)
        return develop_lattice

    def mk_write(orig):
        def writeT4Geometry(*args, **kwargs):
            try:
                a_ = argsof(orig, args, kwargs)
                dic_surface_t4, dic_volume, skipped_cells = a_['dic_surface_t4'], a_['dic_volume'], a_['skipped_cells']
                surfs = {}
                for k, sf in dic_surface_t4.items():
                    tr = None
                    if sf.transform is not None:
                        tr = [float(x) for x in sf.transform[0].flatten('C')] + [float(x) for x in sf.transform[1].flatten('C')]
                    surfs[int(k)] = (sf.type_surface.name, [float(x) for x in sf.param_surface], tr)
                cap.written = {'surfs': surfs, 'vols': vols_struct(dic_volume), 'skipped': [int(k) for k in skipped_cells]}
            except Exception as e:  # noqa
                cap.error = 'write-capture: %r' % (e,)
            return orig(*args, **kwargs)
        return writeT4Geometry

    patch(M, 'writeT4Geometry', mk_write)

    # ---- pot_transform / cell_transform: every top-level call with the state it starts from and what it creates
    ptd = {'depth': 0, 'tokens': {}, 'leaves': None}

    def pt_tok(transform):
        key = tuple(float(x) for x in transform)
        return ptd['tokens'].setdefault(key, len(ptd['tokens']) + 1)

    def pt_snapshot(self):
        cells = ' '.join('(cell %d %s)' % (int(k), geom_sexp(c.geometry)) for k, c in self.dic_cell_mcnp.items())
        cache = ' '.join('(e %d %d %d)' % (int(ck[0]), pt_tok(ck[1]), int(v))
                         for ck, v in self.cell_transform_cache.items() if len(ck[1]))
        return dict(ns=int(self.new_surf_key), nc=int(self.new_cell_key), cells=cells, cache=cache,
                    keys=set(self.dic_cell_mcnp), cached=set(self.cell_transform_cache))

    def pt_finish(self, snap, call, res_txt):
        surfs = ' '.join('(s %d %d %s %d)' % (k, n, '-' if sub is None else str(sub), t) for k, n, sub, t in ptd['leaves'])
        newc = ' '.join('(cell %d %s)' % (int(k), geom_sexp(c.geometry)) for k, c in self.dic_cell_mcnp.items()
                        if k not in snap['keys'])
        newcache = ' '.join('(e %d %d %d)' % (int(ck[0]), pt_tok(ck[1]), int(v))
                            for ck, v in self.cell_transform_cache.items() if ck not in snap['cached'] and len(ck[1]))
        cap.pt_calls.append({
            'request': '(pt (ns %d) (nc %d) (cells %s) (cache %s) (call %s))' % (snap['ns'], snap['nc'], snap['cells'],
                                                                               snap['cache'], call),
            'expected': 'ok (res %s) (ns %d) (nc %d) (surfs %s) (cells %s) (cache %s)' % (
                res_txt, int(self.new_surf_key), int(self.new_cell_key), surfs, newc, newcache)})

    def mk_ct(orig):
        def cell_transform(self, *args, **kwargs):
            a_ = argsof(orig, (self,) + args, kwargs)
            if not all(k in a_ for k in ('cell_key', 'transform', 'cache')):
                cap.error = 'pottransform-encode: cell_transform called with other parameters'
                return orig(self, *args, **kwargs)
            cell_key, transform, cache = a_['cell_key'], a_['transform'], a_['cache']
            top = ptd['depth'] == 0 and len(transform) and len(cap.pt_calls) < 60
            snap = None
            if top:
                try:
                    snap = pt_snapshot(self)
                    ptd['leaves'] = []
                except Exception as e:  # noqa
                    snap = None
            ptd['depth'] += 1
            try:
                res = orig(self, *args, **kwargs)
            finally:
                ptd['depth'] -= 1
            if ptd['depth'] == 0:
                try:
                    ptd.setdefault('moves', {})[int(res)] = (ptd.setdefault('moves', {}).get(int(cell_key), [])
                                                            + ([pt_tok(transform)] if len(transform) else []))
                except Exception as e:  # noqa
                    cap.error = 'fillmoves: %r' % (e,)
            if snap is not None:
                try:
                    pt_finish(self, snap, 'cell %d %d %d' % (int(cell_key), pt_tok(transform), 1 if cache else 0), '%d' % int(res))
                except Exception as e:  # noqa
                    cap.error = 'pottransform-encode: %r' % (e,)
            return res
        return cell_transform

    def mk_pt(orig):
        def pot_transform(self, *args, **kwargs):
            from MIP.geom.semantics import Surface
            a_ = argsof(orig, (self,) + args, kwargs)
            if not all(k in a_ for k in ('p_tree', 'p_transf')):
                cap.error = 'pottransform-encode: pot_transform called with other parameters'
                return orig(self, *args, **kwargs)
            p_tree, p_transf = a_['p_tree'], a_['p_transf']
            top = ptd['depth'] == 0 and p_transf is not None and len(p_transf) and len(cap.pt_calls) < 60
            snap = None
            if top:
                try:
                    snap = pt_snapshot(self)
                    snap['tree'] = geom_sexp(p_tree)
                    ptd['leaves'] = []
                except Exception as e:  # noqa
                    snap = None
            ptd['depth'] += 1
            try:
                res = orig(self, *args, **kwargs)
            finally:
                ptd['depth'] -= 1
            if isinstance(p_tree, Surface) and p_transf is not None and len(p_transf) and ptd['leaves'] is not None:
                ptd['leaves'].append((abs(int(res.surface)), abs(int(p_tree.surface)), p_tree.sub, pt_tok(p_transf)))
            if snap is not None:
                try:
                    pt_finish(self, snap, 'tree %d %s' % (pt_tok(p_transf), snap['tree']), geom_sexp(res))
                except Exception as e:  # noqa
                    cap.error = 'pottransform-encode: %r' % (e,)
            return res
        return pot_transform

    def mk_gc(orig):
        def constructGeomCompT4(*args, **kwargs):
            out = orig(*args, **kwargs)
            try:
                a_ = argsof(orig, args, kwargs)
                dicVol, dic_cellMCNP = a_['dicVol'], a_['dic_cellMCNP']
                from . import lean as _lean
                vols, owners = [], []
                for k, v in dicVol.items():
                    vols.append('(v %d %s %s)' % (int(k), 'F' if v.fictive else 'R',
                                                  ' '.join('(%d %d)' % (int(a), int(b)) for a, b in v.idorigin)))
                    owners.append(int(v.idorigin[0][0]) if v.idorigin else int(k))
                cells = []
                for o in sorted(set(owners)):
                    if o in dic_cellMCNP:
                        c = dic_cellMCNP[o]
                        cells.append('(c %d %s %s)' % (o, _lean.hx(str(c.materialID)),
                                                       '-' if c.density is None else _lean.hx(str(c.density))))
                cap.geomcomp = {
                    'request': '(gc (vols %s) (cells %s))' % (' '.join(vols), ' '.join(cells)),
                    'expected': ('ok ' + ' '.join('(g %s %s %s)' % (_lean.hx(str(k)), g.volumeNumberMaterial, g.listVolumeId)
                                                  for k, g in out.items())).rstrip()}
            except Exception as e:  # noqa
                cap.error = 'geomcomp-encode: %r' % (e,)
            return out
        return constructGeomCompT4

    def mk_fill(orig):
        def pot_fill(self, *args, **kwargs):
            from t4_geom_convert.Kernel.Volume.CellMCNP import CellRef
            key = argsof(orig, (self,) + args, kwargs).get('key')
            try:
                cell = self.dic_cell_mcnp[key]
                if cell.fillid is not None:
                    cap.fill_frames[int(key)] = (pt_tok(cell.filltr) if cell.filltr is not None and len(cell.filltr) else None,
                                                 [pt_tok(t) for t in (cell.trcl or []) if len(t)])
            except Exception as e:  # noqa
                cap.error = 'fillframes: %r' % (e,)
            res = orig(self, *args, **kwargs)
            try:
                if self.dic_cell_mcnp[key].fillid is not None:
                    moves = ptd.setdefault('moves', {})
                    for k in res:
                        g = self.dic_cell_mcnp[k].geometry
                        y = g[2] if isinstance(g, (tuple, list)) and len(g) == 3 else None
                        if isinstance(y, CellRef):
                            moves[int(k)] = list(moves.get(int(y.cell), []))
                            cap.fill_moves[int(k)] = moves[int(k)]
            except Exception as e:  # noqa
                cap.error = 'fillmoves: %r' % (e,)
            return res
        return pot_fill

    import t4_geom_convert.Kernel.FileHandlers.Writer.WriteT4GeomComp as WGC
    patch(WGC, 'constructGeomCompT4', mk_gc)

    import t4_geom_convert.Kernel.Volume.ConstructVolumeT4 as CVT
    patch(CVT, 'inline_cells', mk_inline)

    cls = getattr(CC, 'CellConversion', None)
    if cls is None:
        cap.missing.append('CellConversion')
    else:
        patch(cls, 'develop_lattice', mk_lat)
        patch(cls, 'cell_transform', mk_ct)
        patch(cls, 'pot_fill', mk_fill)
        patch(cls, 'pot_transform', mk_pt)
        patch(cls, 'pot_complement', mk_compl)
        patch(cls, 'pot_convert', mk_conv)
    patch(WG, 'construct_volume_t4', mk_cv)
    patch(M, 'convertMCNPGeometry', mk_geo)
    try:
        res = impl.convert(deck_text, args)
    finally:
        for obj, name, orig in reversed(saved):
            setattr(obj, name, orig)
    return res, cap


# ------------------------------------------------------------------ requests for the Lean model

def compile_request(cap):
    ci = cap.compile_in
    return '(compile (next %d) (union %d %d) (matching %s) (cells %s) (keys %s))' % (
        ci['next'], ci['union'][0], ci['union'][1],
        ' '.join('(%d %s)' % (k, ' '.join(str(x) for x in v)) for k, v in ci['matching']),
        ' '.join('(cell %d (o %s) %s)' % (k, ' '.join('(%d %d)' % p for p in o), g) for k, o, g in ci['cells']),
        ' '.join(str(k) for k in cap.compile_keys))


def post_request(cap, dedup):
    vols = ' '.join(struct_vol_sexp(k, v) for k, v in cap.vols_before_post.items())
    return '(post (dedup %d) (union %d %d) (surfs %s) (vols %s))' % (
        1 if dedup else 0, cap.union_ids[0], cap.union_ids[1],
        ' '.join('(%d %s)' % (k, key) for k, key in cap.surfs_before_post), vols)


def struct_vol_sexp(k, v):
    pl, mi, ops, origin, fict = v
    o = ''
    if ops is not None:
        o = ' (op %s %s)' % ('U' if ops[0] == 'UNION' else 'I', ' '.join(str(x) for x in ops[1]))
    return '(vol %d (p %s) (m %s)%s (o %s) %s)' % (
        k, ' '.join(map(str, pl)), ' '.join(map(str, mi)), o, ' '.join('(%d %d)' % p for p in origin),
        'F' if fict else 'R')


def lattice_request(rec):
    f = lambda xs: ' '.join(repr(float(x)) for x in xs)  # noqa
    parts = ['(base %s)' % ' '.join('(v %s)' % f(v) for v in rec['base']),
             '(bounds %s)' % ' '.join('(r %d %d)' % b for b in rec['bounds']),
             '(spec %s)' % ' '.join(str(u) for u in rec['spec']), '(univ %d)' % rec['univ']]
    if rec['filltr']:
        parts.append('(filltr %s)' % f(rec['filltr']))
    if rec['trcl']:
        parts.append('(trcl %s)' % f(rec['trcl'][0]))
    return '(lat %s)' % ' '.join(parts)


def inline_request(cap):
    mx, cells = cap.inline_in
    return '(inline (max %r) (cells %s))' % (mx, ' '.join('(cell %d %d %s)' % c for c in cells))


def complement_request(cap):
    return '(complement (cells %s))' % ' '.join('(cell %d %d %s)' % c for c in cap.complement_in)


# ------------------------------------------------------------------ parsing model responses

def parse_sexp(s):
    toks = s.replace('(', ' ( ').replace(')', ' ) ').split()
    stack = [[]]
    for t in toks:
        if t == '(':
            stack.append([])
        elif t == ')':
            top = stack.pop()
            stack[-1].append(top)
        else:
            stack[-1].append(t)
    return stack[0]


def vols_from_response(items):
    out = {}
    for it in items:
        if not isinstance(it, list) or it[0] != 'vol':
            continue
        k = int(it[1])
        pl = mi = ()
        ops = None
        origin = ()
        fict = 'F' in it
        for f in it[2:]:
            if isinstance(f, list):
                if f[0] == 'p':
                    pl = tuple(sorted(int(x) for x in f[1:]))
                elif f[0] == 'm':
                    mi = tuple(sorted(int(x) for x in f[1:]))
                elif f[0] == 'op':
                    ops = ('UNION' if f[1] == 'U' else 'INTE', tuple(int(x) for x in f[2:]))
                elif f[0] == 'o':
                    origin = tuple((int(a), int(b)) for a, b in f[1:])
        out[k] = (pl, mi, ops, origin, fict)
    return out


def canon_vols(vols, surf_class=None):
    """Canonical observable of a volume dictionary: every non-virtual volume ↦ its unfolded term.
    term = (frozenset(plus), frozenset(minus), op, frozenset(child terms)); numbering of virtual
    volumes, operand order and duplicates do not matter.  `surf_class` maps a surface id to a
    canonical representative (identity by default)."""
    sc = surf_class or (lambda s: s)
    memo = {}

    on_path = set()

    def term(k, depth=0):
        if k in memo:
            return memo[k]
        if k not in vols or depth > 200:
            return ('DANGLING', k)
        if k in on_path:
            # a volume that (directly or not) has itself as an operand: unfolding would never end
            return ('CYCLE', k)
        on_path.add(k)
        pl, mi, ops, origin, fict = vols[k]
        kids = None
        if ops is not None:
            kids = (ops[0], frozenset(term(c, depth + 1) if c is not None else ('NONE',) for c in ops[1]))
        t = (frozenset(sc(s) for s in pl), frozenset(sc(s) for s in mi), kids)
        on_path.discard(k)
        memo[k] = t
        return t

    out = {}
    for k, v in vols.items():
        if v[4]:
            continue
        out[(k if not v[3] else None, v[3])] = term(k)
    return out
