"""C14 — output does not depend on MCNP-insignificant formatting of the deck."""
import random
import re

from .geomcommon import *  # noqa
from .. import gen_univ as U
from .. import restyle as R

ID = 'C14'
LEVEL = 'proof'
RULE = ('each generated deck (flat / universes / lattices / LIKE cells, with TR and IMP data cards) is rendered '
        'canonically and then respelled 3 times by an independent text-level restyler combining: letter case of every '
        'card, blank runs and tabs, continuation by ≥5 blanks / tab / trailing &, full-line c comments between and '
        'inside cards (0–4 leading blanks, C, tab after c), $ comments (also containing & and keywords), a message '
        'block, Fortran spellings of surface / TR / IMP numbers (1.5 → 1.5+0, 15-1, 1.5d0, .15E1 …), nR shorthand in '
        'TR and IMP cards. The written file must be byte-identical to that of the canonical text apart from the '
        'header comment. Also: the 128 upstream decks of the repository are converted (corpus, must not raise). '
        'Streams cards: get_cards/Card.content vs the Lean lexer model. Distinct = (deck, style).')
NOT_PROVED = ['letter case of data-card names (one .lower() per reader; for surface mnemonics see surface_mnemonic_case_immaterial): decided by the restyling '
              'differential only; the splits of cell / surface / data cards and the keyword tokeniser are modelled '
              'character by character, tied by the cellsplit / cardsplit / opttokens streams and proved to return the fields '
              'as written (cell_card_split_*, surface_card_split*, data_card_split, keyword_case_immaterial); the '
              'hypothesis OptsAt of the cell-card theorems is not derived from a grammar of geometry expressions, and '
              'float() spellings inf / nan / 1_0 are outside the model',
              'the block splitter is modelled at the level of lines (what \\n separates); \\r and a blank first line are outside the model']
ASSUMPTIONS = ['densities and material fractions are only respelled within their spelling class (C09): the strings are '
               'copied into composition names / the COMPOSITION block']


def plan(tier):
    q = tier == 'quick'
    return [('restyle', 150 if q else 3000, {}), ('corpus', 1, {}), ('cards', 200 if q else 3000, {}),
            ('blocks', 300 if q else 6000, {}), ('cellsplit', 200 if q else 4000, {}),
            ('cardsplit', 200 if q else 4000, {}), ('opttokens', 200 if q else 4000, {})]


def search_plan(tier, disagreements):
    return [('restyle', 600 if tier == 'quick' else 4000, {})]


def strip_header(t4):
    return '\n'.join(l for l in t4.splitlines() if not l.startswith('//'))


def geom_part(t4):
    t = strip_header(t4)
    i = t.find('COMPOSITION')
    return t if i < 0 else t[:i]


def assoc(t4):
    """volume id ↦ (material, density value, defined in COMPOSITION?)"""
    import re
    defined = set(re.findall(r'^(?:POINT_WISE|DENSITY) \d+ (\S+)', t4, re.M))
    out = {}
    i = t4.find('GEOMCOMP')
    for m in re.finditer(r'^(m\S+) (\d+) (.*)$', t4[i:] if i >= 0 else '', re.M):
        name = m.group(1)
        mm = re.match(r'm(\d+)(?:_(.*))?$', name)
        val = None
        if mm.group(2) is not None:
            lit = mm.group(2).lower().replace('d', 'e')
            if 'e' not in lit:
                lit = re.sub(r'(?<=[0-9.])([-+]\d+)$', r'e\1', lit)
            val = float(lit)
        for vid in m.group(3).split():
            out[int(vid)] = (int(mm.group(1)), val, name in defined)
    return out


def base_deck(rng):
    m = rng.random()
    if m < 0.4:
        d = G.build_flat_deck(rng, macro_p=0.2, tr_p=0.3, imp0_p=0.15)
    elif m < 0.75:
        d = U.build_universe_deck(rng, depth=rng.randint(1, 2), macro_p=0.1, tr_p=0.2, fill_tr_p=0.5, trcl_p=0.3)
    else:
        d = U.build_universe_deck(rng, depth=2, macro_p=0.0, tr_p=0.0, fill_tr_p=0.3, trcl_p=0.2, lattice_p=0.6)
    if rng.random() < 0.3:
        from .. import gen_like as L
        L.add_like_cells(d, rng)
        if U._cyclic(d):
            return None
    if rng.random() < 0.4:
        # importances on a data card
        d.imp_cards = {'n': [D.fnum(float(c.imp)) for c in d.cells]}
    return d


def run_case(stream, seed, ctx, params):
    rng = random.Random(seed)
    if stream == 'corpus':
        return corpus_case(ctx)
    if stream == 'cards':
        return cards_case(seed, rng, ctx)
    if stream == 'blocks':
        return blocks_case(seed, rng, ctx)
    if stream == 'cellsplit':
        return cellsplit_case(seed, rng, ctx)
    if stream == 'cardsplit':
        return cardsplit_case(seed, rng, ctx)
    if stream == 'opttokens':
        return opttokens_case(seed, rng, ctx)
    d = base_deck(rng)
    if d is None:
        return None
    text = D.render_deck(d, None, imp_on_cards=d.imp_cards is None)
    base = impl.convert(text, [])
    if not base.ok:
        return None
    fails = []
    hs = []
    dist = {}
    sample = None
    # density spellings: numerically equal Fortran forms, chosen per occurrence; composition names may then
    # differ, the association volume ↦ (material, density value) and its being defined may not
    dens = [c for c in d.cells if c.rho is not None and 'raw' not in c.hints]
    if dens and rng.random() < 0.5:
        saved = [(c, c.rho) for c in dens]
        for c in dens:
            c.rho = R.respell_number(c.rho, rng) if R.NUM.match(c.rho) else c.rho
        text_d = D.render_deck(d, None, imp_on_cards=d.imp_cards is None)
        for c, r in saved:
            c.rho = r
        res_d = impl.convert(text_d, [])
        replay = {'deck': text_d, 'canonical': text, 'args': []}
        hs.append(h(text_d))
        dist['style:density'] = 1
        if not res_d.ok:
            fails.append(fail('violation', 'deck with respelled densities rejected (%s: %s)' % (res_d.exc_type, (res_d.exc_msg or '')[:150]),
                              {'stream': 'restyle', 'class': 'rejected', 'error': res_d.exc_type}, replay))
        else:
            a, b = assoc(base.t4), assoc(res_d.t4)
            if a != b:
                fails.append(fail('violation', 'volume ↦ (material, density) association changes with the spelling of densities: %r vs %r'
                                  % (sorted(a.items())[:4], sorted(b.items())[:4]),
                                  {'stream': 'restyle', 'class': 'association-differs'}, replay))
            if geom_part(base.t4) != geom_part(res_d.t4):
                fails.append(fail('violation', 'geometry changes with the spelling of densities',
                                  {'stream': 'restyle', 'class': 'output-differs'}, replay))
    for k in range(3):
        styled, feats = R.restyle(text, rng)
        res = impl.convert(styled, [])
        key = h(styled)
        hs.append(key)
        for f, on in feats.items():
            if on:
                dist['style:' + f] = dist.get('style:' + f, 0) + 1
        replay = {'deck': styled, 'canonical': text, 'args': [], 'features': feats}
        if not res.ok:
            fails.append(fail('violation', 'respelled deck rejected (%s: %s) while the canonical spelling converts'
                              % (res.exc_type, (res.exc_msg or '')[:150]),
                              {'stream': 'restyle', 'class': 'rejected', 'error': res.exc_type}, replay))
        elif strip_header(res.t4) != strip_header(base.t4):
            a, b = strip_header(base.t4).splitlines(), strip_header(res.t4).splitlines()
            diff = [(x, y) for x, y in zip(a, b) if x != y][:2] or [('length', len(a), len(b))]
            fails.append(fail('violation', 'respelled deck converts differently: %r' % (diff,),
                              {'stream': 'restyle', 'class': 'output-differs'}, replay))
        sample = {'styled': styled[:500], 'features': [f for f, on in feats.items() if on]}
    return dict(evaluations=3, hashes=hs, nontrivial_hashes=hs, dist=dist, sample=sample, failures=fails[:3])


def corpus_case(ctx):
    import glob
    import os
    fails = []
    n = 0
    data = os.path.join(impl.REPO, 't4_geom_convert', 'IntegrationTests', 'data', '*.imcnp')
    for f in sorted(glob.glob(data)):
        enc = 'latin-1' if 'latin1' in f else 'utf-8'
        try:
            txt = open(f, encoding=enc).read()
        except Exception:  # noqa
            continue
        res = impl.convert(txt, [], encoding=None if enc == 'utf-8' else enc)
        n += 1
        if not res.ok and res.exc_type != 'MissingLatticeOptError':
            fails.append(fail('violation', 'upstream deck %s rejected: %s: %s' % (os.path.basename(f), res.exc_type, (res.exc_msg or '')[:150]),
                              {'stream': 'corpus', 'class': 'rejected', 'deck': os.path.basename(f)}, {'file': f}))
        elif res.ok:
            okwf, rep = wf(ctx, res.t4)
            if not okwf:
                fails.append(fail('violation', 'upstream deck %s: output not structurally valid: %s' % (os.path.basename(f), rep[:300]),
                                  {'stream': 'corpus', 'class': 'not-wellformed', 'deck': os.path.basename(f)}, {'file': f}))
    return dict(evaluations=n, hashes=[h(i) for i in range(n)], nontrivial_hashes=[h(i) for i in range(n)],
                dist={'corpus:decks': n}, sample={'decks': n}, failures=fails[:5])


def blocks_case(seed, rng, ctx):
    """get_block_positions on a random text (message block or not, blank lines of every kind and number between the
    blocks, too many blocks) vs the Lean model of the block splitter; the theorems of Props/C14 (delimiter_immaterial,
    message_block_immaterial) are about that model"""
    from MIP.mip.blocks import get_block_positions
    pool = ['title card', '1 0 -1 imp:n=1', '2 0 1', '1 so 5', 'm1 1001 1', 'c comment', '     cont', 'x', '  y  ', 'tr1 1 2 3',
            '10 like 1 but u=2', 'imp:n 1 2r 0']
    blanks = ['', ' ', '  \t', '\t', '     ']
    lines = []
    msg = rng.random() < 0.35
    if msg:
        lines.append(rng.choice(['message: outp=x', 'MESSAGE: a b', '  Message:  b', 'message:', 'messages: no', 'message: datapath=/x/y']))
        if rng.random() < 0.3:
            lines.append('      continued message')
        if rng.random() < 0.85:
            lines += [rng.choice(blanks) for _ in range(rng.randint(1, 3))]
    for i in range(rng.randint(1, 11)):
        # the first line of a deck is its title: never blank
        lines.append(rng.choice(pool) if (rng.random() < 0.7 or not lines or (i == 0 and not msg)) else rng.choice(blanks))
    text = '\n'.join(lines) + rng.choice(['', '\n', '\n\n', ' \n', '\n \n'])
    if not text.strip() or not text.split('\n')[0].strip():
        return None
    key = h(text)

    def canon(ls):
        ls = list(ls)
        while ls and ls[-1] == '':
            ls.pop()
        return ls
    try:
        d = get_block_positions(text)
        code = {k: canon(text[a:b].split('\n')) for k, ((a, b), _ln) in d.items()}
    except Exception as e:  # noqa
        code = ('error', type(e).__name__)
    resp = ctx['drv'].ask('blocks ' + lean.hx(text))
    fails = []
    if resp.startswith('ok error'):
        model = ('error', resp.split()[2])
    elif resp.startswith('ok '):
        model = {}
        for item in resp.split()[1:]:
            k, v = item[0], item[1:]
            if v != '-':
                model[k] = canon(lean.unhx(v[1:]).split('\n')) if v[1:] else []
    else:
        model = None
        fails.append(fail('disagreement', 'driver: ' + resp, {'stream': 'blocks'}, {'text': text}))
    if model is not None:
        same = (isinstance(model, tuple) and isinstance(code, tuple)) or (not isinstance(model, tuple) and model == code)
        if not same:
            fails.append(fail('disagreement', 'text %r: code blocks %r / model %r' % (text, code, model), {'stream': 'blocks'}, {'text': text}))
    nblocks = len(code) if isinstance(code, dict) else 0
    return dict(hashes=[key], nontrivial_hashes=[key] if nblocks >= 3 else [],
                dist={'blocks:n-%d' % nblocks: 1, 'blocks:message' if msg else 'blocks:plain': 1,
                      'blocks:error' if isinstance(code, tuple) else 'blocks:ok': 1},
                sample={'text': text, 'blocks': code if isinstance(code, dict) else list(code)}, failures=fails)


def opttokens_case(seed, rng, ctx):
    """the keyword tokens parse_one_cell_worker hands to parse_keywords vs the Lean model optTokens, on the option
    texts of the cells of generated / restyled decks (every letter case, blanks around ':' and '=', parentheses)
    and on synthetic option texts"""
    from t4_geom_convert.Kernel.FileHandlers.Parser.ParseMCNPCell import ParseMCNPCell
    pairs = []
    if rng.random() < 0.5:
        d = base_deck(rng)
        if d is None:
            return None
        text = D.render_deck(d, D.Layout(rng), imp_on_cards=d.imp_cards is None)
        if rng.random() < 0.7:
            text, _ = R.restyle(text, rng)
        seen = {}
        orig_w, orig_k = ParseMCNPCell.parse_one_cell_worker, ParseMCNPCell.parse_keywords

        def worker(self, rank, lat_opt, parsed_cell):
            seen['opt'] = parsed_cell[2]
            return orig_w(self, rank, lat_opt, parsed_cell)

        def keywords(self, kw_list):
            if 'opt' in seen:
                pairs.append((seen.pop('opt'), list(reversed(kw_list))))
            return orig_k(self, kw_list)
        ParseMCNPCell.parse_one_cell_worker, ParseMCNPCell.parse_keywords = worker, keywords
        try:
            impl.convert(text, [x for lo in (d.lattice_opts or []) for x in ('--lattice', lo)])
        finally:
            ParseMCNPCell.parse_one_cell_worker, ParseMCNPCell.parse_keywords = orig_w, orig_k
    else:
        import re as _re
        for _ in range(8):
            ws = []
            for _ in range(rng.randint(0, 5)):
                ws.append(rng.choice(['imp:n=1', 'IMP:N,P = 0', 'imp : n=.5', 'u=2', 'U = -3', '*fill=3 (1 0 0)', 'FILL=4(2)',
                                      'fill=0:1 0:0 0:0 1 2', 'trcl=(0 0 1)', '*TRCL = ( 1 2 3 30 60 90 120 30 90 90 90 0 )',
                                      'lat=1', 'Mat=2', 'RHO=-2.7', 'vol=1', 'tmp=2.5e-8', ': :', '=', '((', 'imp:p  =  1']))
            opt = rng.choice(['', ' ', '  ']).join(ws) if rng.random() < 0.3 else ' '.join(ws)
            o2 = _re.sub(' *: *', ':', opt)
            o2 = o2.lower().replace('(', ' ').replace(')', ' ').replace('=', ' ')
            pairs.append((opt, o2.split()))
    pairs = [(o, t) for o, t in pairs if all(ord(c) < 128 for c in o)]
    fails, hs = [], []
    for opt, toks in pairs:
        want = ('ok ' + ' '.join('=' + lean.hx(t) for t in toks)).rstrip()
        got = ctx['drv'].ask('opttokens ' + lean.hx(opt)).rstrip()
        hs.append(h(opt))
        if want != got:
            fails.append(fail('disagreement', 'option tokens of %r: code %r / model %s' % (opt, toks, got[:200]),
                              {'stream': 'opttokens'}, {'options': opt}))
    return dict(evaluations=len(pairs), hashes=hs, nontrivial_hashes=[x for x, (o, t) in zip(hs, pairs) if len(t) > 1],
                dist={'opttokens:texts': len(pairs), 'opttokens:tokens': sum(len(t) for o, t in pairs)},
                sample={'options': [o for o, t in pairs[:3]]}, failures=fails[:5])


def cardsplit_case(seed, rng, ctx):
    """surfacecard.split and datacard.split vs the Lean models, on the contents of the surface and data cards of
    generated / restyled decks and on synthetic mutated cards"""
    from MIP.mip import surfacecard, datacard
    from MIP.mip.cards import get_cards
    from MIP.mip.main import Card

    def enc(g):
        return 'ok ' + ' '.join('=' + lean.hx(x) for x in g)

    def code(kind, t):
        try:
            return enc((surfacecard if kind == 's' else datacard).split(t))
        except AttributeError:
            return 'ok error noMatch'
    items = []
    if rng.random() < 0.5:
        d = base_deck(rng)
        if d is None:
            return None
        text = D.render_deck(d, D.Layout(rng), imp_on_cards=d.imp_cards is None)
        if rng.random() < 0.7:
            text, _ = R.restyle(text, rng)
        from MIP.mip.blocks import get_block_positions
        try:
            bi = get_block_positions(text, firstblock=None)
        except Exception:  # noqa
            return None
        for b in 'sd':
            if b in bi:
                (i1, i2), _ = bi[b]
                items += [(b, Card(lines=c, position=n, type=b).content()) for c, n, t in get_cards(text[i1:i2], skipcomments=True)
                          if t == 'card']
    else:
        def mut(t):
            if rng.random() < 0.35:
                i = rng.randrange(len(t) + 1)
                t = t[:i] + rng.choice(' *+-/a1. \t') + t[i:]
            if rng.random() < 0.2 and t:
                i = rng.randrange(len(t))
                t = t[:i] + t[i + 1:]
            return t
        for _ in range(8):
            if rng.random() < 0.5:
                items.append(('s', mut(rng.choice(['', '*', '+', '+*', ' ']) + rng.choice(['1', '12', '007'])
                                       + rng.choice([' ', '  ', '\t']) + rng.choice(['', '3 ', '-3 ', '+12  ', '5'])
                                       + rng.choice(['px', 'PX', 'c/z', 'K/X', 'so', 'gq', 'x', 'rpp', 'tz'])
                                       + rng.choice([' ', '  ', '']) + rng.choice(['5', '-1.5 2 3', '1e-3 .5', '', '0 0 0 1 j 2']))))
            else:
                items.append(('d', mut(rng.choice(['', '*', ' ', '**'])
                                       + rng.choice(['m', 'M', 'tr', 'TR', 'imp:n', 'imp:n,p', 'mode', 'nps', 'f', 'fm', 'sdef', 'm1mt'])
                                       + rng.choice(['', '1', '12', '4*', '*']) + rng.choice([' ', '  ', ''])
                                       + rng.choice(['1001 .5', '1 1 0', '.5 1r', 'n p', '1e5', '0 0 1 30 60 90 120 30 90 90 90 0', '']))))
    items = [(k, t) for k, t in items if '\n' not in t]
    fails, hs, dist = [], [], {}
    for kind, t in items:
        a = code(kind, t)
        b = ctx['drv'].ask(('surfsplit ' if kind == 's' else 'datasplit ') + lean.hx(t))
        k = 'cardsplit:%s-%s' % ('surface' if kind == 's' else 'data', 'noMatch' if a.startswith('ok error') else 'split')
        dist[k] = dist.get(k, 0) + 1
        hs.append(h((kind, t)))
        if a != b:
            fails.append(fail('disagreement', '%scard.split(%r): code %s / model %s' % ('surface' if kind == 's' else 'data', t, a[:200], b[:200]),
                              {'stream': 'cardsplit'}, {'card': t, 'kind': kind}))
    return dict(evaluations=len(items), hashes=hs, nontrivial_hashes=hs, dist=dist,
                sample={'cards': items[:3]}, failures=fails[:5])


def cellsplit_case(seed, rng, ctx):
    """cellcard.split vs the Lean model on the one-line content of cell cards: half taken from generated decks
    (canonical and restyled: every letter case, Fortran spellings, options of every kind), half synthetic and
    mutated (dropped / inserted characters, missing fields, words that are not numbers)"""
    from MIP.mip import cellcard
    from MIP.mip.cards import get_cards
    from MIP.mip.main import Card

    def code(t):
        try:
            return 'ok ' + ' '.join('=' + lean.hx(x) for x in cellcard.split(t))
        except ValueError as e:
            return 'ok error ' + ('tooFew' if 'unpack' in str(e) else 'notFloat')
        except IndexError:
            return 'ok error noMatch'
    texts = []
    if rng.random() < 0.5:
        d = base_deck(rng)
        if d is None:
            return None
        text = D.render_deck(d, None, imp_on_cards=d.imp_cards is None)
        if rng.random() < 0.7:
            text, _ = R.restyle(text, rng)
        from MIP.mip.blocks import get_block_positions
        try:
            bi = get_block_positions(text, firstblock=None)
            (i1, i2), _ = bi['c']
        except Exception:  # noqa
            return None
        texts = [Card(lines=c, position=n, type='c').content() for c, n, t in get_cards(text[i1:i2], skipcomments=True)
                 if t == 'card']
    else:
        for _ in range(8):
            name = rng.choice(['5', '12', '007', ' 3', 'a1', '1b', ''])
            if rng.random() < 0.25:
                t = (name + ' ' + rng.choice(['like', 'LIKE', 'Like', 'lIkE'])
                     + rng.choice([' 3 ', ' 12 ', '  7 ', ' 3', ' but 4 ', ' 4 bUt but '])
                     + rng.choice(['but', 'BUT', 'But', 'bu', 'butt', ' but'])
                     + rng.choice(['', ' imp:n=1', ' trcl=(1 0 0) u=2', 'but', 'xbut u=1']))
            else:
                mat = rng.choice(['0', '1', '12', '0.0', '-0', '00', '+0', '0e3', '1e0', 'x', '.', '0.', '.0', '1.5', '0x',
                                  'e5', '0e', '1e+', '0E-2',
                                  # float(token) == 0 is decided on the double: underflowing spellings are "zero"
                                  '1.2e-431', '4.9e-324', '2.4e-324', '2.5e-324', '1e-400', '0.0e-400', '1e999',
                                  '0.' + '0' * rng.choice([5, 322, 323, 324, 400]) + rng.choice('0137')])
                rho = rng.choice(['-2.7', '1.2e-4', '0.05', '-1', '(1', '2(', '', '-2.7E0'])
                geom = rng.choice(['-1 2', '(1:2) -3', '-1:2', '#(1 2) 3', '1', '(1 2)', '-1 (2:3)#4 ', '- 1', '1 2 )', '3.1 -4.2'])
                opts = rng.choice(['', 'imp:n=1', 'IMP:N=1 u=2', '*trcl=(1 0 0 30 60 90 120 30 90 90 90 0)', 'fill=3 (1 0 0)',
                                   'u=1 imp:n=0', 'vol 1', '*fill=2(0 0 1)'])
                t = ' '.join([name, mat] + ([rho] if rho else [])) + rng.choice([' ', '']) + geom + rng.choice([' ', '', ' ']) + opts
            if rng.random() < 0.3:
                i = rng.randrange(len(t) + 1)
                t = t[:i] + rng.choice(' )(*a:x1 \t') + t[i:]
            if rng.random() < 0.2 and t:
                i = rng.randrange(len(t))
                t = t[:i] + t[i + 1:]
            texts.append(t)
    # outside the model: Python's float() also reads inf / nan / infinity and digits separated by underscores
    texts = [t for t in texts if '_' not in t and '\n' not in t
             and not re.search(r'(?i)^\s*\S+\s+[-+]?(inf|nan)', t)]
    fails = []
    hs = []
    dist = {}
    for t in texts:
        a = code(t)
        b = ctx['drv'].ask('cellsplit ' + lean.hx(t))
        k = 'cellsplit:' + (a.split()[2] if a.startswith('ok error') else 'split')
        dist[k] = dist.get(k, 0) + 1
        hs.append(h(t))
        if a != b:
            fails.append(fail('disagreement', 'cellcard.split(%r): code %s / model %s' % (t, a[:200], b[:200]),
                              {'stream': 'cellsplit'}, {'content': t}))
    return dict(evaluations=len(texts), hashes=hs, nontrivial_hashes=hs, dist=dist,
                sample={'contents': texts[:3]}, failures=fails[:5])


def cards_case(seed, rng, ctx):
    """get_cards + Card.content on a random block vs the Lean lexer model"""
    from MIP.mip.cards import get_cards
    from MIP.mip.main import Card
    words = ['1', '2', '-3', '0', 'px', 'so', '1.5', 'imp:n=1', 'u=2', '(1:-2)', '#3', 'like', 'but', 'c', 'C', 'fill=1',
             '&', '$', '$ note & more', '& $x', 'm1', '1001.70c', 'tr1', '*tr2', 'cc', 'c1']
    blanks = [' ', '  ', '   ', '\t', ' \t', '     ', '      ', '\t ', '    ']
    lines = []
    for _ in range(rng.randint(1, 9)):
        m = rng.random()
        lead = rng.choice(['', '', '', ' ', '  ', '    ', '     ', '      ', '\t', ' \t', '    \t'])
        if m < 0.2:
            l = rng.choice(['', ' ', '  ', '   ', '    ']) + rng.choice(['c', 'C']) + rng.choice(['', ' comment', '\tx', ' $ &', 'x', '1 2'])
        else:
            l = lead + ''.join(rng.choice(words) + rng.choice(blanks) for _ in range(rng.randint(1, 6)))
            if rng.random() < 0.3:
                l = l.rstrip() + rng.choice([' &', '&', ' & ', ' $ c', ' & $ x', ' $ a & b', ' &  \t'])
        if not l.strip():
            l = '1'
        lines.append(l)
    block = '\n'.join(lines)
    key = h(block)
    code = [Card(lines=c, position=n, type='c').content() for c, n, t in get_cards(block, skipcomments=True) if t == 'card']
    resp = ctx['drv'].ask('cards ' + lean.hx(block))
    fails = []
    if not resp.startswith('ok'):
        fails.append(fail('disagreement', 'driver: ' + resp, {'stream': 'cards'}, {'block': block}))
    else:
        model = [lean.unhx(x) for x in resp.split()[1:]]
        if model != code:
            fails.append(fail('disagreement', 'block %r: code cards %r / model %r' % (block, code, model),
                              {'stream': 'cards'}, {'block': block}))
    nt = [key] if any('&' in l or '$' in l or '\t' in l for l in lines) else []
    return dict(hashes=[key], nontrivial_hashes=nt, dist={'cards:lines': len(lines), 'cards:cards': len(code)},
                sample={'block': block, 'cards': code}, failures=fails)


def replay(payload, ctx):
    p = payload.get('payload') or {}
    out = {}
    if 'block' in p:
        from MIP.mip.cards import get_cards
        from MIP.mip.main import Card
        out['code'] = [Card(lines=c, position=n, type='c').content() for c, n, t in get_cards(p['block'], skipcomments=True)]
        out['model'] = [lean.unhx(x) for x in ctx['drv'].ask('cards ' + lean.hx(p['block'])).split()[1:]]
    if 'card' in p:
        from MIP.mip import surfacecard, datacard
        try:
            out['code'] = list((surfacecard if p.get('kind') == 's' else datacard).split(p['card']))
        except Exception as e:  # noqa
            out['code'] = 'error %s' % type(e).__name__
        out['model'] = ctx['drv'].ask(('surfsplit ' if p.get('kind') == 's' else 'datasplit ') + lean.hx(p['card']))
    if 'content' in p:
        from MIP.mip import cellcard
        try:
            out['code'] = list(cellcard.split(p['content']))
        except Exception as e:  # noqa
            out['code'] = 'error %s' % type(e).__name__
        out['model'] = ctx['drv'].ask('cellsplit ' + lean.hx(p['content']))
    if 'deck' in p:
        res = impl.convert(p['deck'], [])
        out['exception'] = res.exc_type
        if 'canonical' in p:
            base = impl.convert(p['canonical'], [])
            out['violation'] = (not res.ok) or strip_header(res.t4) != strip_header(base.t4)
    return out
