"""C08 — every written file is structurally valid TRIPOLI-4 input."""
import random

from .geomcommon import *  # noqa
from .. import gen_univ as U

ID = 'C08'
LEVEL = 'proof'
RULE = ('every kind of generated deck (flat partitions with complements and empty cells, universes, lattices, '
        'transformations, coincident surfaces: a container bounded by a copy of a universe surface, user planes equal to '
        'the auxiliary union planes, flagged surfaces) under all 8 flag combinations and four inline scores; the Lean '
        'reader parses the written bytes and evaluates WellFormed clause by clause (ids unique, references defined, '
        'declared counts, no surface on both sides, one composition per non-virtual volume, COMPOSITION count, '
        'finite numbers). Non-trivial = file has at least one UNION/INTE operator; distinct = distinct (deck, options).')
NOT_PROVED = ['write/parse round trip is a theorem for VOLU lines (volume_line_roundtrip on words, volume_line_text_roundtrip '
              'from the text of the line) and for GEOMCOMP lines (geomcomp_line_roundtrip); SURF / TRANSFORM lines carry floats '
              '(opaque in the kernel) and the BOUNDARY_CONDITION block has no writer model (the COMPOSITION block has: '
              'composition_counts_fit / composition_count_line are theorems about Model/Composition, tied to the code by the '
              'compmodel stream of C10): '
              'checked per file by the fidelity stream (the Lean reader must find in the bytes exactly the dictionaries '
              'writeT4Geometry was handed)',
              'ids unique / one composition per volume / finite numbers: properties of the writers, '
              'evaluated on the bytes of every file, not theorems']
ASSUMPTIONS = []


def plan(tier):
    q = tier == 'quick'
    return [('wf', 320 if q else 6000, {}), ('coincident', 120 if q else 2000, {}), ('fidelity', 150 if q else 3000, {}),
            ('flagged-unused', 4 if q else 20, {}), ('volstr', 150 if q else 3000, {})]


def search_plan(tier, disagreements):
    return [('wf', 1500 if tier == 'quick' else 8000, {})]


def fidelity_case(seed, rng, ctx):
    """writer fidelity: what the Lean reader finds in the written file is exactly what writeT4Geometry was handed —
    every surface in use with the same keyword, the same IEEE numbers and the same TRANSFORM, every volume with the same
    PLUS/MINUS sets, operator, operands and FICTIVE flag (read ∘ write = identity on the in-memory dictionaries)"""
    import struct
    m = rng.random()
    if m < 0.4:
        d = G.build_flat_deck(rng, macro_p=0.3, tr_p=0.3, imp0_p=0.2)
    elif m < 0.75:
        d = U.build_universe_deck(rng, depth=rng.randint(1, 2), macro_p=0.2, tr_p=0.2, fill_tr_p=0.6, trcl_p=0.3)
    else:
        d = C13_tori(rng)
    args = list(rng.choice(all_option_sets()))
    text = D.render_deck(d, D.Layout(rng))
    key = h((text, tuple(args)))
    res, cap = C.convert_capture(text, args)
    if not res.ok or cap.written is None:
        return None
    resp = ctx['drv'].ask('t4dump ' + lean.hx(res.t4))
    fails = []
    rp = {'deck': text, 'args': args}
    if not resp.startswith('ok'):
        return dict(hashes=[key], nontrivial_hashes=[], dist={}, sample=None,
                    failures=[fail('disagreement', 'driver: ' + resp[:200], {'stream': 'fidelity'}, rp)])
    fsurfs, fvols = {}, {}
    for it in resp.split()[1:]:
        f = it.split(':')
        if f[0] == 'S':
            nums = lambda t: [struct.unpack('<d', struct.pack('<Q', int(x)))[0] for x in t.split(',')] if t and t != '-' else None  # noqa
            fsurfs[int(f[1])] = (f[2], nums(f[3]) or [], nums(f[4]))
        else:
            ints = lambda t: tuple(sorted(int(x) for x in t.split(','))) if t else ()  # noqa
            op = None if f[4] == '-' else (f[4].split(',')[0], tuple(int(x) for x in f[4].split(',')[1:]))
            fvols[int(f[1])] = (ints(f[2]), ints(f[3]), op, f[5] == '1')
    w = cap.written
    used = set(sid for k, v in w['vols'].items() for sid in v[0] + v[1])
    for sid in sorted(used):
        mem = w['surfs'].get(sid)
        got = fsurfs.get(sid)
        if mem is None or got is None or mem[0] != got[0] or list(mem[1]) != list(got[1]) or (mem[2] or None) != (got[2] or None):
            fails.append(fail('violation', 'surface %d: in memory %r, in the file %r' % (sid, mem, got),
                              {'stream': 'fidelity', 'class': 'surface-differs'}, rp))
            break
    extra = sorted(set(fsurfs) - used)
    if extra:
        fails.append(fail('violation', 'surfaces %r are written but used by no volume' % (extra[:5],),
                          {'stream': 'fidelity', 'class': 'surplus-surface'}, rp))
    for vid, v in w['vols'].items():
        if vid in w['skipped']:
            continue
        mem = (tuple(v[0]), tuple(v[1]), v[2], v[4])
        got = fvols.get(vid)
        if got != mem:
            fails.append(fail('violation', 'volume %d: in memory %r, in the file %r' % (vid, mem, got),
                              {'stream': 'fidelity', 'class': 'volume-differs'}, rp))
            break
    surplus = sorted(set(fvols) - set(k for k in w['vols'] if k not in w['skipped']))
    if surplus:
        fails.append(fail('violation', 'volumes %r are written but not in the dictionary' % (surplus[:5],),
                          {'stream': 'fidelity', 'class': 'surplus-volume'}, rp))
    return dict(hashes=[key], nontrivial_hashes=[key] if len(fvols) > 1 else [],
                dist={'fidelity:surfaces': len(used), 'fidelity:volumes': len(fvols),
                      'fidelity:with-transform': sum(1 for s_ in used if w['surfs'].get(s_, (0, 0, None))[2])},
                sample={'deck': text[:200]}, failures=fails[:3])


def C13_tori(rng):
    from . import c13
    return c13.tori_deck(rng)


def run_case(stream, seed, ctx, params):
    rng = random.Random(seed)
    if stream == 'fidelity':
        return fidelity_case(seed, rng, ctx)
    if stream == 'volstr':
        # VolumeT4.__str__ vs volLine, the writer model volume_line_roundtrip is about
        from . import c18
        return c18.volstr_case(seed, rng, ctx)
    if stream == 'flagged-unused':
        # the configuration of the open finding F2c (= F2b seen from C08), built on purpose: a flagged surface card
        # that bounds no converted cell
        d = G.build_flat_deck(rng, macro_p=0.0, tr_p=0.0, imp0_p=0.0)
        nid = max(s_.id for s_ in d.surfs) + 1
        d.surfs.append(D.Surf(nid, 'px', [rng.choice(G.HALF) + 0.125], bc=rng.choice(['*', '+'])))
        return run_deck(ctx, stream, d, [], rng, npts=40)
    if stream == 'wf':
        m = rng.random()
        if m < 0.35:
            d = G.build_flat_deck(rng, macro_p=0.3, tr_p=0.1, imp0_p=0.3)
            # a reflecting / white flag on one or two elementary surfaces: the file then has a BOUNDARY_CONDITION
            # block whose declared count and references are part of the predicate
            plain = [s_ for s_ in d.surfs if s_.mn not in G.MACRO_NFACETS and s_.mn != 'arb'
                     and not (s_.mn[0] == 'k' and len(s_.ps) in (3, 5)) and s_.mn not in ('x', 'y', 'z')]
            if plain and rng.random() < 0.4:
                for s_ in rng.sample(plain, min(len(plain), rng.randint(1, 2))):
                    s_.bc = rng.choice(['*', '+'])
        elif m < 0.7:
            d = U.build_universe_deck(rng, depth=rng.randint(1, 3), macro_p=0.2, tr_p=0.1, fill_tr_p=0.6, trcl_p=0.3)
        else:
            d = U.build_universe_deck(rng, depth=2, macro_p=0.0, tr_p=0.0, fill_tr_p=0.3, trcl_p=0.2, lattice_p=0.6,
                                      lat_tr_p=0.2, lat_big_p=0.3)
    else:
        d = coincident_deck(rng) if rng.random() < 0.6 else G.contradictory_union_deck(rng)
    G.vary_mats(d, rng)
    flags = rng.choice(all_option_sets())
    args = list(flags)
    if rng.random() < 0.5:
        args += ['--max-inline-score', rng.choice(SCORES)]
    r = run_deck(ctx, stream, d, args, rng, npts=60)
    return r


def coincident_deck(rng):
    """decks rich in identical surfaces under different numbers: de-duplication then creates volumes with one
    surface on both sides, which remove_empty_volumes must clear"""
    d = D.Deck()
    r = rng.choice([2.0, 3.0, 5.0])
    x0 = rng.choice([-1.0, 1.0, 0.5])      # ±1 coincides with the auxiliary union planes
    d.surfs = [D.Surf(1, 'so', [r]), D.Surf(2, 'px', [x0]), D.Surf(3, 'so', [r]), D.Surf(4, 'px', [x0]),
               D.Surf(5, 'py', [0.0]), D.Surf(6, 'p', [1.0, 0.0, 0.0, x0]), D.Surf(7, 'kx', [x0, 1.0, 1.0])]
    u = 1
    a, b = rng.sample([2, 4, 6], 2)
    shapes = [
        ('i', ('s', -1), ('s', a)), ('i', ('s', -1), ('s', -a)), ('s', 1)]
    d.cells = [D.Cell(1, shapes[0], fill={'u': u, 'tr': None}), D.Cell(2, shapes[1], mat=1, rho='-1.0'),
               D.Cell(3, shapes[2], imp=0)]
    inner = rng.choice([
        [('i', ('s', -3), ('s', b)), ('u', ('s', 3), ('s', -b))],
        [('i', ('s', -3), ('s', -b)), ('u', ('s', 3), ('s', b))],
        [('u', ('s', -7), ('s', 5)), ('i', ('s', 7), ('s', -5))],
        [('i', ('s', b), ('s', 5)), ('u', ('s', -b), ('s', -5))],
    ])
    d.cells += [D.Cell(10, inner[0], mat=2, rho='-2.0', u=u), D.Cell(11, inner[1], mat=1, rho='-1.0', u=u)]
    d.mats = {1: [('13027', '1.0')], 2: [('26056', '-0.9'), ('6012', '-0.1')]}
    return d


replay = replay_deck
