"""C08 — every written file is structurally valid TRIPOLI-4 input."""
import random

from .geomcommon import *  # noqa
from .. import gen_univ as U

ID = 'C08'
LEVEL = 'proof'
RULE = ('every kind of generated deck (flat partitions with complements and empty cells, universes, lattices, '
        'transformations, coincident surfaces: a container bounded by a copy of a universe surface, user planes equal to '
        'the auxiliary union planes, flagged surfaces) under all 8 flag combinations and four inline scores; the Lean '
        'reader parses the written bytes and evaluates WellFormed clause by clause (ids unique, references defined, '
        'declared counts, no surface on both sides, one composition per non-virtual volume, COMPOSITION count, '
        'finite numbers). Non-trivial = file has at least one UNION/INTE operator; distinct = distinct (deck, options).')
NOT_PROVED = ['write/parse round trip of the writers (the predicate is evaluated on the bytes by the Lean reader)',
              'ids unique / declared counts / one composition per volume / finite numbers: properties of the writers, '
              'evaluated on the bytes of every file, not theorems']
ASSUMPTIONS = []


def plan(tier):
    q = tier == 'quick'
    return [('wf', 320 if q else 6000, {}), ('coincident', 120 if q else 2000, {})]


def search_plan(tier, disagreements):
    return [('wf', 1500 if tier == 'quick' else 8000, {})]


def run_case(stream, seed, ctx, params):
    rng = random.Random(seed)
    if stream == 'wf':
        m = rng.random()
        if m < 0.35:
            d = G.build_flat_deck(rng, macro_p=0.3, tr_p=0.1, imp0_p=0.3)
        elif m < 0.7:
            d = U.build_universe_deck(rng, depth=rng.randint(1, 3), macro_p=0.2, tr_p=0.1, fill_tr_p=0.6, trcl_p=0.3)
        else:
            d = U.build_universe_deck(rng, depth=2, macro_p=0.0, tr_p=0.0, fill_tr_p=0.3, trcl_p=0.2, lattice_p=0.6,
                                      lat_tr_p=0.2)
    else:
        d = coincident_deck(rng)
    flags = rng.choice(all_option_sets())
    args = list(flags)
    if rng.random() < 0.5:
        args += ['--max-inline-score', rng.choice(SCORES)]
    r = run_deck(ctx, stream, d, args, rng, npts=60)
    return r


def coincident_deck(rng):
    """decks rich in identical surfaces under different numbers: de-duplication then creates volumes with one
    surface on both sides, which remove_empty_volumes must clear"""
    d = D.Deck()
    r = rng.choice([2.0, 3.0, 5.0])
    x0 = rng.choice([-1.0, 1.0, 0.5])      # ±1 coincides with the auxiliary union planes
    d.surfs = [D.Surf(1, 'so', [r]), D.Surf(2, 'px', [x0]), D.Surf(3, 'so', [r]), D.Surf(4, 'px', [x0]),
               D.Surf(5, 'py', [0.0]), D.Surf(6, 'p', [1.0, 0.0, 0.0, x0]), D.Surf(7, 'kx', [x0, 1.0, 1.0])]
    u = 1
    a, b = rng.sample([2, 4, 6], 2)
    shapes = [
        ('i', ('s', -1), ('s', a)), ('i', ('s', -1), ('s', -a)), ('s', 1)]
    d.cells = [D.Cell(1, shapes[0], fill={'u': u, 'tr': None}), D.Cell(2, shapes[1], mat=1, rho='-1.0'),
               D.Cell(3, shapes[2], imp=0)]
    inner = rng.choice([
        [('i', ('s', -3), ('s', b)), ('u', ('s', 3), ('s', -b))],
        [('i', ('s', -3), ('s', -b)), ('u', ('s', 3), ('s', b))],
        [('u', ('s', -7), ('s', 5)), ('i', ('s', 7), ('s', -5))],
        [('i', ('s', b), ('s', 5)), ('u', ('s', -b), ('s', -5))],
    ])
    d.cells += [D.Cell(10, inner[0], mat=2, rho='-2.0', u=u), D.Cell(11, inner[1], mat=1, rho='-1.0', u=u)]
    d.mats = {1: [('13027', '1.0')], 2: [('26056', '-0.9'), ('6012', '-0.1')]}
    return d


replay = replay_deck
