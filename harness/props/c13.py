"""C13 — de-duplication and inlining options never change the geometry."""
import random

from .geomcommon import *  # noqa
from .. import gen_univ as U

ID = 'C13'
LEVEL = 'proof'
RULE = ('each generated deck (flat, universes, lattices; with coincident surfaces; tilted tori sharing parameters) is '
        'converted under several option sets drawn from the 8 flag combinations × {default, 0, 0.5, 1.5, 1e9} inline '
        'scores; every output is checked by the Lean point monitor (owners, provenance, composition) against the one '
        'MCNP reference, so any two outputs agree point-wise; the de-duplication and post-processing model is compared '
        'with the code (which surfaces are merged). Non-trivial = deck has a filled cell or duplicate surfaces.')
NOT_PROVED = []
ASSUMPTIONS = []


def plan(tier):
    q = tier == 'quick'
    return [('options', 90 if q else 1500, {}), ('dedup', 240 if q else 2400, {})]


def search_plan(tier, disagreements):
    return [('options', 400 if tier == 'quick' else 3000, {})]


def tori_deck(rng):
    """several tilted tori with identical local parameters but different orientation/translation: they differ
    only in the TRANSFORM block of the TRIPOLI-4 surface"""
    d = D.Deck()
    n = rng.randint(2, 3)
    ps = [0.0, 0.0, 0.0, rng.choice([4.0, 5.0]), 1.0, 1.0]
    cells = []
    for i in range(1, n + 1):
        m, cls = G.random_motion(rng, 'generic', translate=False)
        d.trs[i] = (m, {'star': False, 'cls': cls})
        d.surfs.append(D.Surf(i, 'tz', list(ps), tr=m, trnum=i))
    d.surfs.append(D.Surf(9, 'so', [8.0]))
    e_out = ('s', -9)
    for i in range(1, n + 1):
        inside_prev = None
        e = ('s', -i)
        for j in range(1, i):
            e = ('i', e, ('s', j))
        d.cells.append(D.Cell(i, ('i', e, ('s', -9)), mat=i, rho='-1.0'))
        e_out = ('i', e_out, ('s', i))
    d.cells.append(D.Cell(20, e_out, mat=0))
    d.cells.append(D.Cell(21, ('s', 9), imp=0))
    d.mats = {1: [('13027', '1.0')], 2: [('26056', '1.0')], 3: [('6012', '1.0')]}
    return d


def neardup_deck(rng):
    """slabs cut by two equal spheres: many surfaces of one type whose parameters differ in one place only — among
    them the pairs -1 / -2 (equal hashes in CPython), 0.0 / -0.0 (equal numbers) — and true duplicates under
    different numbers.  Only equal definitions may be merged."""
    d = D.Deck()
    ax = rng.choice('xyz')
    vals = sorted(rng.sample([-3.0, -2.0, -1.0, -0.5, 0.0, 1.0, 2.0], rng.randint(2, 5)))
    if rng.random() < 0.7 and not (-1.0 in vals and -2.0 in vals):
        vals = sorted(set(vals) | {-1.0, -2.0})
    sid = 0
    lower, upper = [], []          # surface number used as lower bound of slab i+1 / upper bound of slab i
    for v in vals:
        sid += 1
        d.surfs.append(D.Surf(sid, 'p' + ax, [v]))
        upper.append(sid)
        if rng.random() < 0.4:
            sid += 1
            d.surfs.append(D.Surf(sid, 'p' + ax, [-0.0 if v == 0.0 and rng.random() < 0.5 else v]))   # a true duplicate
        lower.append(sid)
    k = 'xyz'.index(ax)
    c1, c2 = [0.0, 0.0, 0.0], [0.0, 0.0, 0.0]
    j = rng.choice([i for i in range(3) if i != k] + [k])
    c1[j], c2[j] = rng.choice([(-1.0, -2.0), (-2.0, -1.0), (1.0, 2.0), (-1.0, 1.0)])
    r = rng.choice([1.5, 2.5])
    if rng.random() < 0.5:
        d.surfs += [D.Surf(sid + 1, 's', c1 + [r]), D.Surf(sid + 2, 's', c2 + [r])]
    else:
        o = [i for i in range(3) if i != k]
        mn = 'c/' + ax
        d.surfs += [D.Surf(sid + 1, mn, [c1[o[0]] or -1.0, c1[o[1]], r]), D.Surf(sid + 2, mn, [c2[o[0]] or -2.0, c2[o[1]], r])]
    a, b = sid + 1, sid + 2
    shapes = [('s', -a), ('i', ('s', a), ('s', -b)), ('i', ('s', a), ('s', b))]
    cid = 0
    for i in range(len(vals) + 1):
        for sh in shapes:
            e = sh
            if i > 0:
                e = ('i', ('s', lower[i - 1]), e)
            if i < len(vals):
                e = ('i', e, ('s', -upper[i]))
            cid += 1
            mat = rng.choice([0, 1, 2])
            d.cells.append(D.Cell(cid, e, mat=mat, rho=None if mat == 0 else rng.choice(['-1.0', '-2.0'])))
    d.mats = {1: [('13027', '1.0')], 2: [('26056', '-0.9'), ('6012', '-0.1')]}
    return d


def tiny_coeff_deck(rng):
    """two or three very large ellipsoids (semi-axes of 50–100 m: coefficients of 1e-8) around one another, and a small
    sphere: surfaces whose parameters differ only far behind the decimal point are different surfaces all the same"""
    d = D.Deck()
    n = rng.randint(2, 3)
    axes = sorted(rng.sample([5000.0, 6000.0, 7000.0, 8000.0, 10000.0], n))
    stretch = [rng.choice([1.0, 1.25, 2.0]) for _ in range(3)]
    for i, a in enumerate(axes):
        co = [1.0 / (a * s_) ** 2 for s_ in stretch]
        d.surfs.append(D.Surf(i + 1, 'sq', co + [0.0, 0.0, 0.0, -1.0, 0.0, 0.0, 0.0]))
    d.surfs.append(D.Surf(n + 1, 'so', [rng.choice([2.0, 3.5])]))
    cells = [D.Cell(1, ('s', -(n + 1)), mat=1, rho='-1.0'),
             D.Cell(2, ('i', ('s', n + 1), ('s', -1)), mat=2, rho='-2.0')]
    for i in range(1, n):
        cells.append(D.Cell(i + 2, ('i', ('s', i), ('s', -(i + 1))), mat=rng.choice([1, 2]), rho=rng.choice(['-3.0', '-0.5'])))
    cells.append(D.Cell(n + 2, ('s', n), imp=0))
    if rng.random() < 0.5:
        rng.shuffle(cells)
    d.cells = cells
    d.mats = {1: [('13027', '1.0')], 2: [('26056', '-0.9'), ('6012', '-0.1')]}
    pts = []
    for a in axes + [axes[-1] * 1.5]:
        for _ in range(6):
            k = rng.randrange(3)
            q = [rng.uniform(-50, 50) for _ in range(3)]
            q[k] = rng.choice([-1, 1]) * 0.5 * (a + (axes[axes.index(a) - 1] if a in axes and axes.index(a) > 0 else 0.0)) * stretch[k]
            pts.append(q)
    d.probe_points = pts
    return d


def run_case(stream, seed, ctx, params):
    rng = random.Random(seed)
    if stream == 'options':
        m = rng.random()
        if m < 0.5:
            d = U.build_universe_deck(rng, depth=rng.randint(1, 3), macro_p=0.15, tr_p=0.1, fill_tr_p=0.6, trcl_p=0.4,
                                      reuse_p=0.6)
        elif m < 0.8:
            d = U.build_universe_deck(rng, depth=2, macro_p=0.0, tr_p=0.0, fill_tr_p=0.3, trcl_p=0.3, lattice_p=0.6,
                                      lat_tr_p=0.2, lat_trcl_p=0.3)
        elif m < 0.87:
            from .c08 import coincident_deck
            d = coincident_deck(rng)
        elif m < 0.92:
            d = tiny_coeff_deck(rng)
        elif m < 0.96:
            d = G.contradictory_union_deck(rng)
        else:
            d = neardup_deck(rng)
        sets = rng.sample(all_option_sets(), 3)
        out = None
        for flags in sets:
            args = list(flags)
            if rng.random() < 0.6:
                args += ['--max-inline-score', rng.choice(SCORES)]
            r = run_deck(ctx, stream, d, args, random.Random(seed), npts=100)
            if r is None:
                return None
            if out is None:
                out = r
            else:
                out['hashes'] += r['hashes']
                out['nontrivial_hashes'] += r['nontrivial_hashes']
                out['failures'] += r['failures']
                for k, v in r['dist'].items():
                    out['dist'][k] = out['dist'].get(k, 0) + v
        out['evaluations'] = len(sets)
        return out
    else:
        m = rng.random()
        d = (tori_deck(rng) if m < 0.25 else neardup_deck(rng) if m < 0.5 else tiny_coeff_deck(rng) if m < 0.62
             else G.contradictory_union_deck(rng) if m < 0.8
             else __import__('harness.props.c08', fromlist=['x']).coincident_deck(rng))
        args = [] if rng.random() < 0.75 else ['--skip-deduplication']
        return run_deck(ctx, stream, d, args, rng, npts=200, check_model=True)


replay = replay_deck
