"""C07 — hexagonal lattices follow MCNP's hexagonal index convention."""
import random

from .geomcommon import *  # noqa
from .. import gen_univ as U

ID = 'C07'
LEVEL = 'proof'
RULE = ('decks whose universes contain LAT=2 cells bounded by six or eight planes: regular hexagons of three sizes, '
        'three prism axes, first side any of the three pairs, second pair either neighbour (60° and 120° choices), '
        'each pair in either order, the last two planes in either order, top/bottom planes in either order, ranges '
        'incl. negative bounds, FILL arrays with other universes / own universe / 0, containers with '
        'transformations. Stream monitor (Lean spec: a1 across the first-listed plane, a2 across the third, a3 across '
        'the seventh, computed from side mid-points) + model (Layer-B). Non-trivial = hexagonal lattice with more '
        'than one element.')
NOT_PROVED = ['hexBase_char for arbitrary admissible hexagons (the data-dependent vertex traversal of hexVertices) — '
              'claimed by the monitor only; irregular hexagons are not generated yet']
ASSUMPTIONS = ['right prisms (top/bottom planes normal to the axis)']


def plan(tier):
    q = tier == 'quick'
    return [('monitor', 200 if q else 3000, {}), ('model', 40 if q else 600, {})]


def search_plan(tier, disagreements):
    return [('monitor', 1000 if tier == 'quick' else 6000, {'npts': 300})]


def run_case(stream, seed, ctx, params):
    rng = random.Random(seed)
    kind = rng.choice(['hex', 'hex', 'hex3'])
    d = U.build_universe_deck(rng, depth=rng.randint(1, 2), macro_p=0.0, tr_p=0.0, fill_tr_p=0.4, trcl_p=0.2,
                              reuse_p=0.3, lattice_p=0.7, lat_kind=kind, lat_tr_p=0.25, lat_trcl_p=0.2)
    args = random_options(rng)
    r = run_deck(ctx, stream, d, args, rng, npts=params.get('npts', 150), check_model=(stream == 'model'))
    if r is not None and not any(c.lat == 2 and len(c.fill['us']) > 1 for c in d.cells):
        r['nontrivial_hashes'] = []
    return r


replay = replay_deck
