"""C07 — hexagonal lattices follow MCNP's hexagonal index convention."""
import random

from .geomcommon import *  # noqa
from .. import gen_univ as U

ID = 'C07'
LEVEL = 'proof'
RULE = ('decks whose universes contain LAT=2 cells bounded by six or eight planes: regular hexagons of three sizes, '
        'three prism axes, first side any of the three pairs, second pair either neighbour (60° and 120° choices), '
        'each pair in either order, the last two planes in either order, top/bottom planes in either order, ranges '
        'incl. negative bounds, FILL arrays with other universes / own universe / 0, containers with '
        'transformations. Stream monitor (Lean spec: a1 across the first-listed plane, a2 across the third, a3 across '
        'the seventh, computed from side mid-points) + model (Layer-B). Non-trivial = hexagonal lattice with more '
        'than one element.')
NOT_PROVED = ['the geometric adjacency test areHexSidesAdjacent / hexSortSides (which side planes meet in an edge) and the '
              'projection of the vertices on the base plane: hextrav stream (constructed regular and irregular hexagons, '
              'function level) and the deck monitor only']
ASSUMPTIONS = ['right prisms (top/bottom planes normal to the axis)']


def plan(tier):
    q = tier == 'quick'
    return [('monitor', 450 if q else 4000, {}), ('model', 60 if q else 600, {}), ('hextrav', 300 if q else 6000, {})]


def search_plan(tier, disagreements):
    return [('monitor', 1000 if tier == 'quick' else 6000, {'npts': 300})]


def zonogon(rng):
    """a centrally symmetric convex hexagon (regular or not) in a random axis-aligned or tilted plane:
    returns vertices P0..P5 going round (side k = P_k P_{k+1}, opposite side k+3) and the prism axis"""
    import math
    if rng.random() < 0.4:
        angs = [0.0, math.pi / 3, 2 * math.pi / 3]
        lens = [1.0, 1.0, 1.0]
    else:
        a0 = rng.uniform(0, 0.5)
        angs = [a0, a0 + rng.uniform(0.6, 1.2), a0 + rng.uniform(1.6, 2.4)]
        lens = [rng.choice([1.0, 1.5, 2.0]) for _ in range(3)]
    sc = rng.choice([1.0, 2.0, 0.5])
    g2 = [(sc * l * math.cos(a), sc * l * math.sin(a)) for a, l in zip(angs, lens)]
    # orthonormal frame (u, v, w): hexagon in the (u, v) plane, axis w
    fr = rng.choice(['xy', 'yz', 'zx', 'tilt'])
    if fr == 'xy':
        u, v, w = (1., 0., 0.), (0., 1., 0.), (0., 0., 1.)
    elif fr == 'yz':
        u, v, w = (0., 1., 0.), (0., 0., 1.), (1., 0., 0.)
    elif fr == 'zx':
        u, v, w = (0., 0., 1.), (1., 0., 0.), (0., 1., 0.)
    else:
        u, v, w = (0.6, 0.8, 0.), (-0.8, 0.6, 0.), (0., 0., 1.)
        if rng.random() < 0.5:
            u, v, w = (0.6, 0., 0.8), (0., 1., 0.), (-0.8, 0., 0.6)
    c = [rng.choice([0.0, 0.5, -1.0]) for _ in range(3)]
    g = [tuple(a * u[i] + b * v[i] for i in range(3)) for a, b in g2]
    p = [c[i] - 0.5 * (g[0][i] + g[1][i] + g[2][i]) for i in range(3)]
    verts = [tuple(p)]
    for d in (g[0], g[1], g[2], tuple(-x for x in g[0]), tuple(-x for x in g[1])):
        p = [p[i] + d[i] for i in range(3)]
        verts.append(tuple(p))
    if rng.random() < 0.5:                 # go round the other way
        verts = [verts[0]] + verts[:0:-1]
    return verts, w, c


def hextrav_case(seed, rng, ctx):
    """hexVertices / hexLatticeBaseVectors on a constructed hexagon vs the Lean traversal model and the
    translation vectors of the construction"""
    from t4_geom_convert.Kernel.Volume.Lattice import hexVertices, hexLatticeBaseVectors
    from t4_geom_convert.Kernel.VectUtils import isPointOnPlane
    verts, w, c = zonogon(rng)
    opp = lambda s_: s_ + 1 if s_ % 2 == 0 else s_ - 1   # noqa
    x = rng.choice([2, 3, 4, 5])
    y = rng.choice([s_ for s_ in (2, 3, 4, 5) if s_ not in (x, opp(x))])
    arr = [0, x, y, 1, opp(x), opp(y)]
    rot = rng.randrange(6)
    arr = arr[rot:] + arr[:rot]            # label of the side P_k P_{k+1}
    planes = [None] * 6
    mids = [None] * 6
    for k in range(6):
        a, b = verts[k], verts[(k + 1) % 6]
        mid = tuple((a[i] + b[i]) / 2 for i in range(3))
        e = tuple(b[i] - a[i] for i in range(3))
        n = (e[1] * w[2] - e[2] * w[1], e[2] * w[0] - e[0] * w[2], e[0] * w[1] - e[1] * w[0])
        if sum(n[i] * (mid[i] - c[i]) for i in range(3)) < 0:
            n = tuple(-t for t in n)       # outward
        ln = sum(t * t for t in n) ** 0.5
        n = tuple(t / ln for t in n)
        planes[arr[k]] = ((a, n), -1)
        mids[arr[k]] = mid
    key = h((tuple(verts), tuple(arr)))
    fails = []
    rp = {'verts': verts, 'arr': arr, 'axis': w}
    for first in (0, 2):
        try:
            vs, axis = hexVertices(planes, first)
            code = []
            for v in vs:
                on = [i for i in range(6) if isPointOnPlane(v, planes[i][0])]
                code.append('-'.join(map(str, on)))
            code = ' '.join(code)
        except Exception as e:  # noqa
            code = 'raises ' + type(e).__name__
        resp = ctx['drv'].ask('hextrav %d %s' % (first, ' '.join(map(str, arr))))
        model = resp[3:] if resp.startswith('ok ') else resp
        if model != code:
            fails.append(fail('disagreement', 'hexVertices(first=%d) on arrangement %r: code %r / model %r' % (first, arr, code, model),
                              {'stream': 'hextrav'}, rp))
    try:
        base = hexLatticeBaseVectors(planes)
        for lab, bv in ((0, base[0]), (2, base[1])):
            exp = tuple(mids[lab][i] - mids[opp(lab)][i] for i in range(3))
            if any(abs(exp[i] - bv[i]) > 1e-9 for i in range(3)):
                fails.append(fail('violation', 'base vector across listed plane %d is %r, the translation carrying the unit '
                                  'cell across that plane is %r (arrangement %r)' % (lab + 1, tuple(bv), exp, arr),
                                  {'stream': 'hextrav', 'class': 'base-vector'}, rp))
    except Exception as e:  # noqa
        fails.append(fail('violation', 'hexLatticeBaseVectors raises %s on an admissible hexagon' % type(e).__name__,
                          {'stream': 'hextrav', 'class': 'exception'}, rp))
    # eight planes: the axial vector a3 (code vs the model hexAxialVector vs the translation of the construction)
    try:
        import struct
        wl = sum(t * t for t in w) ** 0.5
        wn = tuple(t / wl for t in w)
        height = rng.choice([1.0, 2.5, 4.0])
        below = rng.choice([0.0, 0.5, 1.5])
        top_pt = tuple(c[i] + (height - below) * wn[i] for i in range(3))
        bot_pt = tuple(c[i] - below * wn[i] for i in range(3))
        flip = rng.random() < 0.5             # the eighth plane may be written with the opposite normal
        n8 = tuple(-t for t in wn) if flip else wn
        planes8 = list(planes) + [((top_pt, wn), -1), ((bot_pt, n8), 1 if not flip else -1)]
        base8 = hexLatticeBaseVectors(planes8)
        a3 = tuple(float(t) for t in base8[2])
        exp = tuple(height * wn[i] for i in range(3))
        if any(abs(exp[i] - a3[i]) > 1e-9 for i in range(3)):
            fails.append(fail('violation', 'axial base vector is %r, the translation carrying the eighth-listed plane onto the '
                              'seventh is %r' % (a3, exp), {'stream': 'hextrav', 'class': 'axial-vector'}, dict(rp, planes8=repr(planes8[6:]))))
        vs0, axis0 = hexVertices(planes8, 0)
        nums = list(vs0[0]) + list(top_pt) + list(wn) + list(bot_pt) + list(n8) + list(axis0)
        resp = ctx['drv'].ask('hexaxial ' + ' '.join(repr(float(t)) for t in nums))
        if not resp.startswith('ok '):
            fails.append(fail('disagreement', 'driver: ' + resp, {'stream': 'hextrav'}, rp))
        else:
            model = [struct.unpack('<d', struct.pack('<Q', int(b)))[0] for b in resp.split()[1:]]
            if any(abs(model[i] - a3[i]) > 1e-9 for i in range(3)):
                fails.append(fail('disagreement', 'axial vector: code %r / model %r' % (a3, model), {'stream': 'hextrav'}, rp))
    except Exception as e:  # noqa
        fails.append(fail('violation', 'hexLatticeBaseVectors raises %s on an admissible eight-plane prism' % type(e).__name__,
                          {'stream': 'hextrav', 'class': 'exception'}, rp))
    return dict(hashes=[key], nontrivial_hashes=[key], dist={'hextrav:rot-%d' % rot: 1}, sample={'arr': arr}, failures=fails[:3])


def run_case(stream, seed, ctx, params):
    rng = random.Random(seed)
    if stream == 'hextrav':
        return hextrav_case(seed, rng, ctx)
    kind = rng.choice(['hex', 'hex', 'hex3', 'rhpmac'])
    d = U.build_universe_deck(rng, depth=rng.randint(1, 2), macro_p=0.0, tr_p=0.0, fill_tr_p=0.4, trcl_p=0.2,
                              reuse_p=0.3, lattice_p=0.7, lat_kind=kind, lat_tr_p=0.25, lat_trcl_p=0.2)
    args = random_options(rng)
    r = run_deck(ctx, stream, d, args, rng, npts=params.get('npts', 220), check_model=(stream == 'model'))
    if r is not None and not any(c.lat == 2 and len(c.fill['us']) > 1 for c in d.cells):
        r['nontrivial_hashes'] = []
    return r


def replay(payload, ctx):
    p = payload.get('payload') or {}
    if 'arr' in p:
        return {'model': [ctx['drv'].ask('hextrav %d %s' % (f, ' '.join(map(str, p['arr'])))) for f in (0, 2)], 'input': p}
    return replay_deck(payload, ctx)
