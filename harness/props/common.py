"""helpers shared by the property modules"""
import hashlib
import random

from .. import capture as C
from .. import deck as D
from .. import gen_geom as G
from .. import impl, lean


def h(obj):
    return hashlib.sha1(repr(obj).encode()).hexdigest()[:16]


def fail(kind, message, signature, replay):
    return dict(kind=kind, message=message, signature=signature, replay=replay)


def pts_arg(pts):
    return ' '.join(repr(float(x)) for p in pts for x in p)


def monitor(ctx, d, t4, pts, with_comp=True, eps=1e-6):
    """spec point monitor in Lean; returns (agree, skip, mismatches[list of str])"""
    resp = ctx['drv'].ask('monitor %s %s %d %r %s' % (lean.hx(d.sexp()), lean.hx(t4), 1 if with_comp else 0, eps,
                                                     pts_arg(pts)))
    if not resp.startswith('ok '):
        return None, None, ['driver: ' + resp]
    parts = resp.split()
    kv = dict(p.split('=') for p in parts[1:4])
    mm = [lean.unhx(x) for x in parts[4:]]
    return int(kv['agree']), int(kv['skip']), mm if int(kv['mismatch']) else []


def wf(ctx, t4):
    resp = ctx['drv'].ask('t4wf ' + lean.hx(t4))
    if resp.startswith('ok wf'):
        return True, resp
    if resp.startswith('ok bad '):
        return False, lean.unhx(resp.split()[2])
    return False, resp


DEGENERATE_ERRORS = ('max() iterable argument is empty', 'max() arg is an empty sequence')


def is_degenerate(res):
    """the converter's Progress bars call max() on the (empty) list of live volumes/surfaces when
    a deck has nothing to convert; such generated decks are skipped, not counted"""
    deg = res.exc_type == 'ValueError' and any(m in (res.exc_msg or '') for m in DEGENERATE_ERRORS)
    if deg:
        # remembered for the framework: a few such decks are normal, a stream of them is not (see run_job)
        LAST_DEGENERATE.append({'deck': getattr(res, 'deck', None), 'args': getattr(res, 'argv', None),
                                'error': '%s: %s' % (res.exc_type, res.exc_msg)})
    return deg


LAST_DEGENERATE = []
