"""C17 — unsupported or malformed input stops the run instead of yielding geometry."""
import random
import re

from .geomcommon import *  # noqa
from .. import gen_univ as U

ID = 'C17'
LEVEL = 'proof'
RULE = ('fault injection: a valid generated deck (flat, universes, lattices) gets exactly one fault from the '
        "property's list at a random applicable card — TR card / inline TRCL / inline FILL with 13 entries and m=-1 "
        '(starred and unstarred), lattice cell with FILL=n and no / wrong-cell / wrong-dimensionality --lattice, '
        'surface card with one parameter too many / too few (every elementary mnemonic and every macrobody), unknown '
        'mnemonic, facet index beyond the facets, FILL array too short / too long, IMP cards of unequal length, '
        'material card mixing signs, malformed --lattice strings — and must end with an exception of a diagnostic '
        'class (never a finished conversion, never a bare KeyError/TypeError/IndexError). The unfaulted deck is '
        'converted first and must succeed. Distinct = (fault class, card).')
NOT_PROVED = ['that every rejection of the model corresponds to a diagnostic of the code naming the problem: decided per injected fault by the harness, no theorem about message texts']
ASSUMPTIONS = []

DIAGNOSTIC = {'TransformationError', 'LatticeError', 'MissingLatticeOptError', 'MacroBodyError', 'CellConversionError',
              'ParseMCNPCellError', 'SurfaceConversionError', 'ValueError', 'NotImplementedError', 'SystemExit'}

LEGAL = {'px': (1,), 'py': (1,), 'pz': (1,), 'p': (4, 9), 'so': (1,), 's': (4,), 'sx': (2,), 'sy': (2,), 'sz': (2,),
         'c/x': (3,), 'c/y': (3,), 'c/z': (3,), 'cx': (1,), 'cy': (1,), 'cz': (1,), 'k/x': (4, 5), 'k/y': (4, 5),
         'k/z': (4, 5), 'kx': (2, 3), 'ky': (2, 3), 'kz': (2, 3), 'sq': (10,), 'gq': (10,), 'tx': (5, 6), 'ty': (5, 6),
         'tz': (5, 6), 'x': (2, 4), 'y': (2, 4), 'z': (2, 4),
         'box': (12,), 'rpp': (6,), 'sph': (4,), 'rcc': (7,), 'rhp': (9, 15), 'hex': (9, 15), 'rec': (10, 12), 'trc': (8,),
         'ell': (7,), 'wed': (12,), 'arb': (30,)}

FAULTS = ['tr-m', 'trcl-m', 'fill-m', 'lat-noopt', 'lat-dim', 'surf-count', 'macro-count', 'mnemonic', 'facet',
          'fill-short', 'fill-long', 'imp-len', 'mat-sign', 'lattice-arg', 'arb-vertex', 'lat-odd']
# fault classes the property does not name: only 'never a normally finished conversion' is demanded of them (a bare
# exception is accepted)
LENIENT = {'arb-vertex', 'lat-odd'}


def plan(tier):
    q = tier == 'quick'
    return [('fault', 1200 if q else 7000, {}), ('latarg', 600 if q else 12000, {})]


def search_plan(tier, disagreements):
    return [('fault', 1500 if tier == 'quick' else 8000, {})]


def latarg_case(seed, rng, ctx):
    """main.parse_lattice on generated --lattice options (well-formed and malformed in every way the function
    names) vs the Lean model (Text/LatticeArg.lean): the same dictionary, or the same kind of complaint"""
    from .. import lean
    impl.ensure()
    from t4_geom_convert.main import parse_lattice

    def num():
        m = rng.random()
        v = str(rng.choice([0, 1, 2, 5, 10, 200, 5902, -1, -4, 17]))
        if m < 0.92:
            return v
        return rng.choice([' ' + v, v + ' ', '+' + v.lstrip('-'), '1_0', '_1', '1__0', '1_', '', '-', '+', '--1', '+-2', '1.0',
                           '6.022e23', 'three', '0x10', '1 2', '\t7', '٣'.encode('ascii', 'ignore').decode() or '3', '-0', '007'])

    def rng_():
        m = rng.random()
        if m < 0.93:
            return num() + ':' + num()
        return rng.choice([num(), num() + ':' + num() + ':' + num(), ':', '', num() + '::' + num(), ':' + num()])
    opts = []
    for _ in range(rng.randint(1, 3)):
        m = rng.random()
        n = rng.choice([1, 2, 3]) if m < 0.93 else rng.choice([0, 4, 5])
        parts = [num()] + [rng_() for _ in range(n)]
        o = ','.join(parts)
        if rng.random() < 0.05:
            o = rng.choice(['malformed', '', ',', '100,', ',0:1'])
        opts.append(o)
    if rng.random() < 0.2 and opts:
        opts.append(opts[0].split(',')[0] + ',0:1')        # the same cell again
    try:
        d = parse_lattice(list(opts))
        code = 'ok ' + ' '.join('%d=%s' % (c, ','.join('%d:%d' % (a, b) for a, b in lb.bounds)) for c, lb in d.items())
    except ValueError as ex:
        msg = str(ex)
        kind = ('no-ranges' if msg.startswith('no ranges') else 'too-many' if msg.startswith('too many') else
                'cell-not-int' if msg.startswith('cell number') else 'need-two' if msg.startswith('needs exactly 2') else
                'bound-not-int' if msg.startswith('range bound') else 'other:' + msg[:40])
        code = 'ok error ' + kind
    except Exception as ex:  # noqa
        code = 'exc ' + type(ex).__name__
    model = ctx['drv'].ask('latarg ' + ' '.join(lean.hx(o) for o in opts))
    key = h(tuple(opts))
    fails = []
    if model.strip() != code.strip():
        fails.append(fail('disagreement', 'parse_lattice(%r): code %s / model %s' % (opts, code[:200], model[:200]),
                          {'stream': 'latarg'}, {'options': opts}))
    return dict(hashes=[key], nontrivial_hashes=[key], dist={'latarg:' + (code.split()[2] if code.startswith('ok error') else 'parsed'): 1},
                sample={'options': opts, 'code': code[:120]}, failures=fails)


def run_case(stream, seed, ctx, params):
    rng = random.Random(seed)
    if stream == 'latarg':
        return latarg_case(seed, rng, ctx)
    fault = FAULTS[seed % len(FAULTS)]
    args = []
    detail = ''
    imp0_lat = False
    # ---- base deck suited to the fault
    if fault in ('lat-noopt', 'lat-dim', 'fill-short', 'fill-long', 'lat-odd'):
        d = U.build_universe_deck(rng, depth=2, macro_p=0.0, tr_p=0.0, fill_tr_p=0.0, trcl_p=0.0, lattice_p=0.7,
                                  lat_kind=rng.choice(['rect1', 'rect2', 'rect3', 'hex']))
        lat = [c for c in d.cells if c.lat]
        if not lat:
            return None
        if fault in ('lat-noopt', 'lat-dim') and rng.random() < 0.3:
            # the faulty lattice cell has importance zero (a cell of a universe: its own importance is immaterial to
            # what is converted, and its FILL is read all the same)
            for c_ in lat:
                c_.imp = 0
            imp0_lat = True
    elif fault in ('trcl-m', 'fill-m'):
        d = U.build_universe_deck(rng, depth=1, macro_p=0.0, tr_p=0.0, fill_tr_p=1.0, trcl_p=1.0,
                                  rot_classes=['perm', 'pyth'])
    elif fault == 'arb-vertex':
        d = G.build_flat_deck(rng, macro_p=1.0, nsurf=rng.randint(1, 2), mkinds=['arb5'])
    elif fault in ('macro-count', 'facet'):
        d = G.build_flat_deck(rng, macro_p=1.0, nsurf=rng.randint(1, 3))
    else:
        d = G.build_flat_deck(rng, macro_p=0.0, tr_p=0.5 if fault == 'tr-m' else 0.0, nsurf=rng.randint(2, 5))
    for c in d.cells:
        c.hints.pop('trcl_num', None)
        c.hints.pop('fill_num', None)
    twin = None
    if fault in ('trcl-m', 'fill-m') and rng.random() < 0.5:
        # the faulty transformation is the second occurrence of its twelve numbers: an earlier card carries the same
        # transformation, validly (a row of identical racks, one of them with m=-1)
        cands = [c for c in d.cells if (c.trcl is not None if fault == 'trcl-m' else (c.fill and c.fill.get('tr') is not None))]
        cands = [c for c in cands if not (c.trcl if fault == 'trcl-m' else c.fill['tr']).is_translation()
                 and d.cells.index(c) > 0]
        if cands:
            c = rng.choice(cands)
            star = rng.random() < 0.5
            m = c.trcl if fault == 'trcl-m' else c.fill['tr']
            c0 = rng.choice(d.cells[:d.cells.index(c)])
            if 'raw' not in c0.hints and not c0.lat:
                c0.trcl = D.Motion(list(m.o), list(m.b))
                c0.hints.pop('trcl_star', None)
                if star:
                    c0.hints['trcl_star'] = True
                twin = (c, star)
    base_text = D.render_deck(d, D.Layout(rng))
    base_args = [x for lo in d.lattice_opts for x in ('--lattice', lo)]
    base = impl.convert(base_text, base_args)
    if not base.ok:
        return None      # only faults on decks that convert are informative
    text = base_text
    args = list(base_args)
    # ---- inject
    if fault == 'tr-m':
        if not d.trs:
            return None
        num = rng.choice(list(d.trs))
        m, sp = d.trs[num]
        star = rng.random() < 0.4
        sp['raw'] = D.tr_card(num, m, star) + ' -1'
        detail = 'star' if star else 'plain'
        text = D.render_deck(d, D.Layout(rng))
    elif fault in ('trcl-m', 'fill-m'):
        cands = [c for c in d.cells if (c.trcl is not None if fault == 'trcl-m' else (c.fill and c.fill.get('tr') is not None))]
        cands = [c for c in cands if not (c.trcl if fault == 'trcl-m' else c.fill['tr']).is_translation()]
        if not cands:
            return None
        c = rng.choice(cands)
        star = rng.random() < 0.5
        if twin is not None:
            c, star = twin
        line = D.render_cell(c, D.Layout(rng))
        m = c.trcl if fault == 'trcl-m' else c.fill['tr']
        kw = 'trcl' if fault == 'trcl-m' else 'fill'
        old = re.search(r'\*?%s=[^()]*\(([^)]*)\)' % kw, line)
        if not old:
            return None
        new_inner = D.inline_tr(m, star) + ' -1'
        head = line[:old.start()]
        piece = old.group(0)
        piece = piece.replace('(' + old.group(1) + ')', '(' + new_inner + ')')
        piece = piece.lstrip('*')
        if star:
            piece = '*' + piece
        c.hints['raw'] = head + piece + line[old.end():]
        detail = ('star' if star else 'plain') + ('+twin' if twin is not None else '')
        text = D.render_deck(d, D.Layout(rng))
    elif fault == 'lat-noopt':
        c = rng.choice(lat)
        us = [u for u in c.fill['us'] if u not in (0, c.u)]
        if not us:
            return None
        c.fill['us'] = [us[0]] * len(c.fill['us'])
        c.hints['fill_by_option'] = True
        variant = rng.choice(['none', 'other-cell', 'like-copy'])
        if variant == 'other-cell':
            args += ['--lattice', '%d,%s' % (c.id + 1000, ','.join('%d:%d' % r for r in c.fill['ranges'][:3]))]
        elif variant == 'like-copy':
            # the ranges are given for the lattice cell, but not for a copy of it written LIKE n BUT …: the copy is a
            # lattice cell of its own and has no ranges
            if len(c.fill['ranges']) > 3:
                return None
            args += ['--lattice', '%d,%s' % (c.id, ','.join('%d:%d' % r for r in c.fill['ranges']))]
            import copy as _copy
            u2 = max(x.u for x in d.cells) + 1
            c2 = D.Cell(max(x.id for x in d.cells) + 1, c.expr, mat=c.mat, rho=c.rho, imp=c.imp, u=u2,
                        fill=_copy.deepcopy(c.fill), lat=c.lat, trcl=c.trcl)
            c2.hints['fill_by_option'] = True
            c2.hints['raw'] = '%d like %d but u=%d' % (c2.id, c.id, u2)
            hosts = [x for x in d.cells if x.u == 0 and x.fill is None and x.imp != 0] or \
                    [x for x in d.cells if x.fill is not None and x.fill.get('u') == c.u]
            if not hosts:
                return None
            host = rng.choice(hosts)
            host.mat, host.rho = 0, None
            host.fill = {'u': u2, 'tr': None}
            d.cells.append(c2)
        detail = variant + (' imp0' if imp0_lat else '')
        text = D.render_deck(d, D.Layout(rng))
    elif fault == 'lat-dim':
        c = rng.choice(lat)
        us = [u for u in c.fill['us'] if u not in (0, c.u)]
        if not us:
            return None
        real = [r for r in c.fill['ranges']]
        ndim = {1: 1, 2: 2, 3: 3}.get(len(D.expr_leaves(c.expr)) // 2, 2) if c.lat == 1 else 2
        # wrong number of non-trivial ranges
        wrong = ndim + 1 if ndim < 3 and rng.random() < 0.5 else ndim - 1
        if wrong == 0:
            wrong = ndim + 1
        rs = [(0, 1)] * wrong
        if rng.random() < 0.35:
            # the right number of real ranges, but more than three ranges in all (surplus trivial ones)
            extra = rng.randint(4 - ndim, 5 - ndim)
            rs = [(0, 1)] * ndim + [(k, k) for k in [0, 0, 2, 3][:extra]]
            if rng.random() < 0.3:
                rs = rs[ndim:] + rs[:ndim]
            wrong = ndim
        c.fill = {'ranges': rs, 'us': [us[0]] * (2 ** wrong), 'tr': None}
        c.hints['fill_by_option'] = True
        args += ['--lattice', '%d,%s' % (c.id, ','.join('%d:%d' % r for r in rs))]
        detail = '%d-for-%d%s' % (wrong, ndim, ' (%d ranges)' % len(rs) if len(rs) > 3 else '') + (' imp0' if imp0_lat else '')
        text = D.render_deck(d, D.Layout(rng))
    elif fault == 'lat-odd':
        # a rectangular lattice cell bounded by an odd number of planes: the planes do not pair up
        cands = [x for x in lat if x.lat == 1]
        if not cands:
            return None
        c = rng.choice(cands)
        n0 = len(D.expr_leaves(c.expr))
        if rng.random() < 0.6 or n0 < 2:
            nid = max(s_.id for s_ in d.surfs) + 1
            d.surfs.append(D.Surf(nid, rng.choice(['px', 'py', 'pz']), [rng.choice([7.5, 9.0, -8.5])]))
            c.expr = ('i', c.expr, ('s', -nid if d.surfs[-1].ps[0] > 0 else nid))
            detail = '%d+1' % n0
        else:
            c.expr = c.expr[1]
            detail = '%d-1' % n0
        text = D.render_deck(d, D.Layout(rng))
    elif fault in ('surf-count', 'macro-count'):
        s = rng.choice(d.surfs)
        legal = LEGAL.get(s.mn)
        if legal is None:
            return None
        lo, hi = min(legal), max(legal)
        cands = [n for n in range(max(1, lo - 2), hi + 4) if n not in legal]
        n2 = rng.choice(cands)
        s.ps = (s.ps + [1.5, 0.5, 2.5, 1.0, 3.5, 0.25] * 6)[:n2]
        detail = '%s:%d' % (s.mn, n2)
        text = D.render_deck(d, D.Layout(rng))
    elif fault == 'mnemonic':
        s = rng.choice(d.surfs)
        s.mn = rng.choice(['qq', 'pw', 'cc', 'sphh', 'k/w', 'torus', 'boxx'])
        detail = s.mn
        text = D.render_deck(d, D.Layout(rng))
    elif fault == 'facet':
        s = rng.choice(d.surfs)
        nf = G.nfacets(s.mn, s.ps)
        live = [x for x in d.cells if x.imp != 0]
        if not live:
            return None
        c = rng.choice(live)
        k = nf + rng.choice([1, 2])
        if k > 9:
            return None
        c.expr = ('i', c.expr, ('f', rng.choice([1, -1]) * s.id, k)) if rng.random() < .5 else ('u', ('f', s.id, k), c.expr)
        detail = '%s.%d' % (s.mn, k)
        text = D.render_deck(d, D.Layout(rng))
    elif fault in ('fill-short', 'fill-long'):
        c = rng.choice(lat)
        n = len(c.fill['us'])
        delta = rng.choice([1, 2, 3])
        if fault == 'fill-short':
            if n - delta < 1:
                delta = 1
            if n - delta < 1:
                return None
            c.fill['us'] = c.fill['us'][:n - delta]
        elif rng.random() < 0.3:
            # too long through a repetition count that overshoots: `u kR` with k + 1 > number of elements (no surplus
            # token is left for anything else to read)
            c.fill['us'] = [c.fill['us'][0], '%d%s' % (n - 1 + delta, rng.choice('rR'))]
        else:
            c.fill['us'] = c.fill['us'] + [c.fill['us'][0]] * delta
        detail = '%+d' % (delta if fault == 'fill-long' else -delta)
        if fault == 'fill-long' and len(c.fill['us']) == 2 and isinstance(c.fill['us'][1], str):
            detail += ' by nR'
        if fault == 'fill-long' and delta == 1 and c.fill['us'][0] in d.trs and 'nR' not in detail:
            detail = '+1=tr'      # the surplus entry is the number of a TR card of the deck (finding F17c)
        text = D.render_deck(d, D.Layout(rng))
    elif fault == 'imp-len':
        d.imp_cards = {'n': ['1'] * len(d.cells), 'p': ['1'] * (len(d.cells) + rng.choice([1, -1, 2]))}
        if len(d.imp_cards['p']) == 0:
            d.imp_cards['p'] = ['1', '1']
        text = D.render_deck(d, D.Layout(rng), imp_on_cards=False)
        detail = 'n=%d p=%d' % (len(d.imp_cards['n']), len(d.imp_cards['p']))
    elif fault == 'mat-sign':
        n = rng.randint(2, 4)
        while True:
            signs = [rng.choice('+-') for _ in range(n)]
            if len(set(signs)) == 2:
                break
        zs = ['13027', '8016', '1001', '26056']
        d.mats[1] = [(zs[i], ('-' if signs[i] == '-' else '') + rng.choice(['0.5', '0.3', '1', '2e-1'])) for i in range(n)]
        detail = ''.join(signs)
        for c in d.cells:
            if c.mat == 0 and c.imp != 0:
                c.mat, c.rho = 1, '-1.0'
                break
        text = D.render_deck(d, D.Layout(rng))
    elif fault == 'arb-vertex':
        # a facet descriptor of a six-vertex ARB names vertex 8, which the card does not define (slots 7 and 8 are padding)
        sf = rng.choice([x for x in d.surfs if x.mn == 'arb'])
        k = rng.choice([i for i in range(24, 30) if sf.ps[i] != 0.0])
        digs = list(str(int(sf.ps[k])))
        j = rng.randrange(min(3, len(digs)))
        digs[j] = '8'
        sf.ps[k] = float(''.join(digs))
        detail = 'facet %d digit %d' % (k - 23, j + 1)
        text = D.render_deck(d, D.Layout(rng))
    elif fault == 'lattice-arg':
        bad = rng.choice(['malformed', 'three,-1:5', '100,', '100,0:4,0:4,0:4,0:4', '100,0:6.022e23', '100,1:2:3', '100,a:b'])
        args += ['--lattice', bad]
        detail = bad
    res = impl.convert(text, args)
    key = h((fault, text, tuple(args)))
    replay = {'deck': text, 'args': args, 'fault': fault, 'detail': detail}
    fails = []
    dist = {'fault:' + fault: 1}
    if res.ok:
        fails.append(fail('violation', 'fault %s (%s) was not detected: the conversion finished normally' % (fault, detail),
                          {'stream': 'fault', 'fault': fault, 'outcome': 'accepted', 'detail': detail_class(fault, detail)}, replay))
        dist['outcome:accepted'] = 1
    elif fault in LENIENT:
        dist['outcome:' + str(res.exc_type)] = 1
    elif res.exc_type not in DIAGNOSTIC or is_degenerate(res):
        fails.append(fail('violation', 'fault %s (%s) stops the run with a bare %s: %s — the problem is not named'
                          % (fault, detail, res.exc_type, (res.exc_msg or '')[:120]),
                          {'stream': 'fault', 'fault': fault, 'outcome': 'bare', 'error': res.exc_type,
                           'detail': detail_class(fault, detail)}, replay))
        dist['outcome:bare-' + str(res.exc_type)] = 1
    else:
        dist['outcome:' + str(res.exc_type)] = 1
    return dict(hashes=[key], nontrivial_hashes=[key], dist=dist,
                sample={'fault': fault, 'detail': detail, 'outcome': res.exc_type or 'accepted',
                        'message': (res.exc_msg or '')[:100]}, failures=fails)


def detail_class(fault, detail):
    if fault in ('surf-count', 'macro-count', 'mat-sign'):
        return detail
    if fault in ('fill-long', 'fill-short'):
        return detail
    return None


def replay(payload, ctx):
    p = payload.get('payload') or {}
    res = impl.convert(p['deck'], p.get('args') or [])
    lenient = p.get('fault') in LENIENT
    return {'exception': res.exc_type, 'message': res.exc_msg,
            'violation': res.ok or (not lenient and res.exc_type not in DIAGNOSTIC)}
