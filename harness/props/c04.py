"""C04 — coordinate transformations move surfaces and cells by the MCNP rigid motion."""
import random

from .geomcommon import *  # noqa
from . import probes as P
from .. import gen_univ as U

ID = 'C04'
LEVEL = 'proof'
RULE = ('probe decks of one surface (every elementary kind incl. one-sheet cones, tori, SQ/GQ) or macrobody carrying a '
        'TR number whose card is spelled in every supported way (3, 12, 13 with m=1 entries, starred degrees, 6-entry '
        'forms rows 1+2 / 2+3 / 1+3 and columns via J placeholders, 5-entry forms), rotation classes identity / '
        'signed axis permutations / Pythagorean / generic; cells with TRCL by number, inline and starred; implicit '
        'surfaces 1000*cell+surface with either sign; universes filled with transformations. The abstract deck given '
        'to the Lean spec carries the full motion; the text carries the abbreviated card. 250 points per deck. '
        'Distinct = (kind, spelling, rotation class, parameters). pottransform: every top-level pot_transform / '
        'cell_transform call of real conversions (universe and lattice decks, all option sets) replayed on the Lean '
        'model from the state it started in.')
NOT_PROVED = ['3-entry matrices (one vector given: MCNP completes arbitrarily, no independent spec; not named by the property) '
              'are compared with the model only',
              'adjust_matrix on slightly non-orthogonal input has no independent spec (MCNP-internal adjustment)',
              'cells: transformed_tree / transformed_cell are stated on sense assignments (the tree built by pot_transform '
              'holds at the image point iff the source holds at the original point, given that each new surface has there '
              'the sense of its source); that hypothesis is transformed_card for one card — the composition with the '
              'surface dictionary of a whole deck is decided by the trcl / fill / implicit streams (point monitor)']
ASSUMPTIONS = ['supplied matrices are rotations (orthogonal, det +1) up to rounding']


def plan(tier):
    q = tier == 'quick'
    return [('trsurf', 300 if q else 6000, {}), ('trcl', 120 if q else 2500, {}), ('implicit', 80 if q else 1500, {}),
            ('fill', 320 if q else 2500, {}), ('trmodel', 600 if q else 15000, {}), ('trnorm', 500 if q else 12000, {}),
            ('pottransform', 120 if q else 2500, {})]


def search_plan(tier, disagreements):
    return [('trsurf', 1500 if tier == 'quick' else 10000, {'npts': 500}), ('trcl', 600, {}), ('implicit', 400, {})]


def _known(d, res):
    for s in d.surfs:
        if s.mn == 'sq' and P.sq_positive_centre(s.ps) and s.tr is None:
            return 'sq-positive-centre'
    return None


def implicit_deck(rng):
    """a cell with a TRCL and other cells that refer to its surfaces as seen from it (numbers 1000*cell+surface)"""
    d = D.Deck()
    mn1, ps1 = G.elementary(rng, ['so', 's', 'cz', 'c/y', 'kz1', 'ky', 'tz', 'gq', 'sx'])
    mn2, ps2 = G.elementary(rng, ['px', 'py', 'pz', 'p'])
    # surface / cell numbers chosen so that fresh surface numbers handed out during the conversion
    # come close to the implicit numbers (e.g. surfaces 1, 999 and cell 1: implicit 1001, 1999)
    s2 = rng.choice([2, 2, 999, 998, 500])
    d.surfs = [D.Surf(1, mn1, ps1), D.Surf(s2, mn2, ps2)]
    m, cls = G.random_motion(rng)
    cid = rng.choice([1, 1, 3, 10, 25]) if s2 > 2 else rng.choice([3, 10, 25])
    c1 = D.Cell(cid, ('i', ('s', -1), ('s', s2)), mat=1, rho='-1.0', trcl=m)
    i1, i2 = 1000 * cid + 1, 1000 * cid + s2
    variant = rng.randrange(3)
    if variant == 0:
        rest = [D.Cell(40, ('i', ('s', -i1), ('s', -i2)), mat=2, rho='-2.0'), D.Cell(41, ('s', i1), mat=0)]
    elif variant == 1:
        rest = [D.Cell(40, ('u', ('s', i1), ('s', -i2)), mat=2, rho='-2.0')]
    else:
        rest = [D.Cell(40, ('i', ('s', -i1), ('s', -i2)), mat=2, rho='-2.0'),
                D.Cell(41, ('i', ('s', i1), ('s', i2)), mat=0), D.Cell(42, ('i', ('s', i1), ('s', -i2)), mat=1, rho='-1.0')]
    d.cells = [c1] + rest
    d.mats = {1: [('13027', '1.0')], 2: [('26056', '1.0')]}
    return d, variant, cls


def pottransform_case(seed, rng, ctx):
    """pot_transform / cell_transform (TRCL and FILL transformations applied to whole cells) vs the Lean model: every
    top-level call of a real conversion is replayed on the model from the state it started in (counters, cell
    dictionary, cache) and must give the same result tree / cell number, the same new surfaces with the same sources,
    the same new cells and the same new cache entries"""
    from .. import gen_univ as U
    m = rng.random()
    if m < 0.7:
        d = U.build_universe_deck(rng, depth=rng.randint(1, 3), macro_p=0.15, tr_p=0.1, fill_tr_p=0.5, trcl_p=0.5, reuse_p=0.6)
    else:
        d = U.build_universe_deck(rng, depth=2, macro_p=0.0, tr_p=0.0, fill_tr_p=0.4, trcl_p=0.4, lattice_p=0.6,
                                  lat_tr_p=0.3, lat_trcl_p=0.3)
    args = random_options(rng)
    text = D.render_deck(d, D.Layout(rng))
    argv = list(args) + [x for lo in (d.lattice_opts or []) for x in ('--lattice', lo)]
    key = h((text, tuple(argv)))
    res, cap = C.convert_capture(text, argv)
    if 'CellConversion.pot_transform' in cap.missing or 'CellConversion.cell_transform' in cap.missing:
        return dict(hashes=[key], nontrivial_hashes=[], dist={'pottransform:anchor-missing': 1}, sample=None,
                    failures=[fail('disagreement', 'pot_transform / cell_transform no longer exist under these names',
                                   {'stream': 'pottransform', 'stage': 'anchor'}, {'deck': text, 'args': argv})])
    fails = []
    dist = {'pottransform:calls': len(cap.pt_calls)}
    if cap.error and 'pottransform' in cap.error:
        fails.append(fail('infra', cap.error, {'stream': 'pottransform'}, None))
    for c in cap.pt_calls:
        resp = ctx['drv'].ask('pottransform ' + lean.hx(c['request']))
        kind = 'cell' if '(call cell' in c['request'] else 'tree'
        dist['pottransform:' + kind] = dist.get('pottransform:' + kind, 0) + 1
        if '(r ' in c['expected']:
            dist['pottransform:with-cellref'] = dist.get('pottransform:with-cellref', 0) + 1
        if c['expected'].endswith('(surfs ) (cells ) (cache )'):
            dist['pottransform:cache-hit'] = dist.get('pottransform:cache-hit', 0) + 1
        if resp != c['expected']:
            fails.append(fail('disagreement', 'pot_transform/cell_transform: code %s / model %s' % (c['expected'][:400], resp[:400]),
                              {'stream': 'pottransform'}, {'deck': text, 'args': argv, 'request': c['request']}))
            break
    return dict(hashes=[key], nontrivial_hashes=[key] if cap.pt_calls else [], dist=dist,
                sample={'calls': len(cap.pt_calls), 'first': (cap.pt_calls[0]['expected'][:300] if cap.pt_calls else None)},
                failures=fails)


def trnorm_case(seed, rng, ctx):
    """normalize_transform (matrix completion 3/5/6/9 entries, J placeholders, adjust_matrix, m = ±1) vs the model"""
    import struct
    from t4_geom_convert.Kernel.Transformation.Transformation import normalize_transform
    m, cls = G.random_motion(rng)
    b = list(m.b)
    J = None
    kind = rng.choice(['full', 'full', 'full13', 'm-1', 'three', 'empty', 'rows12', 'rows23', 'rows13', 'cols12', 'cols23',
                       'cols13', 'row1', 'row2', 'row3', 'col1', 'col2', 'five_a', 'five_b', 'five_c', 'bad4', 'six_short'])
    if kind == 'full':
        e = b
    elif kind == 'full13':
        e = b + [1.0]
    elif kind == 'm-1':
        e = b + [-1.0]
    elif kind == 'three':
        e = []
    elif kind == 'empty':
        e = None
    elif kind == 'rows12':
        e = b[:6] + [J] * 3
    elif kind == 'six_short':
        e = b[:6]
    elif kind == 'rows23':
        e = [J] * 3 + b[3:]
    elif kind == 'rows13':
        e = b[:3] + [J] * 3 + b[6:]
    elif kind == 'cols12':
        e = [b[0], b[1], J, b[3], b[4], J, b[6], b[7], J]
    elif kind == 'cols23':
        e = [J, b[1], b[2], J, b[4], b[5], J, b[7], b[8]]
    elif kind == 'cols13':
        e = [b[0], J, b[2], b[3], J, b[5], b[6], J, b[8]]
    elif kind in ('row1', 'row2', 'row3'):
        i = int(kind[-1]) - 1
        e = [J] * 9
        e[3 * i:3 * i + 3] = b[3 * i:3 * i + 3]
    elif kind in ('col1', 'col2'):
        i = int(kind[-1]) - 1
        e = [J] * 9
        for r in range(3):
            e[3 * r + i] = b[3 * r + i]
    elif kind == 'five_a':
        e = b[:4] + [J, J, b[6], J, J]
    elif kind == 'five_b':
        e = [J, b[1], J, b[3], b[4], b[5], J, b[7], J]
    elif kind == 'five_c':
        e = [J, J, b[2], J, J, b[5], b[6], b[7], b[8]]
    else:  # bad4: four values
        e = b[:4] + [J] * 5
    tr = [] if e is None else list(m.o) + e
    rounded = False
    if rng.random() < 0.1 and len(tr) > 3:      # slightly non-orthogonal input (rounded to 4 digits)
        tr = tr[:3] + [None if x is None else round(x, 4) for x in tr[3:]]
        rounded = True
    try:
        code = [float(x) for x in normalize_transform(list(tr))]
    except Exception as ex:  # noqa
        code = ('error', type(ex).__name__)
    toks = ' '.join('j' if x is None else repr(float(x)) for x in tr)
    resp = ctx['drv'].ask('trnorm ' + toks) if tr else ctx['drv'].ask('trnorm')
    fails = []
    rp = {'tr': tr}
    key = h(tuple(tr))
    if resp.startswith('ok error'):
        if not isinstance(code, tuple):
            fails.append(fail('disagreement', 'normalize_transform(%r): model %s / code %r' % (tr, resp, code), {'stream': 'trnorm'}, rp))
    elif not resp.startswith('ok'):
        fails.append(fail('disagreement', 'driver: ' + resp, {'stream': 'trnorm'}, rp))
    else:
        model = [struct.unpack('<d', struct.pack('<Q', int(x)))[0] for x in resp.split()[1:]]
        if isinstance(code, tuple) or len(model) != len(code) or any(abs(a - c) > 1e-9 for a, c in zip(model, code)):
            fails.append(fail('disagreement', 'normalize_transform(%r): model %r / code %r' % (tr, model, code), {'stream': 'trnorm'}, rp))
        # the property speaks of 9, 6 and 5 matrix entries; a single row or column (3 entries) is completed by the code
        # too, but outside the property: it is compared with the model only (see DESIGN §0.5, observation O1)
        if not isinstance(code, tuple) and kind not in ('bad4', 'row1', 'row2', 'row3', 'col1', 'col2') and len(code) == 12:
            # spec: the completed matrix is a proper rotation and reproduces every supplied entry
            mat = code[3:]
            rows = [mat[0:3], mat[3:6], mat[6:9]]
            orth = max(abs(sum(rows[i][k] * rows[j][k] for k in range(3)) - (1.0 if i == j else 0.0)) for i in range(3) for j in range(3))
            det = (rows[0][0] * (rows[1][1] * rows[2][2] - rows[1][2] * rows[2][1]) - rows[0][1] * (rows[1][0] * rows[2][2] - rows[1][2] * rows[2][0])
                   + rows[0][2] * (rows[1][0] * rows[2][1] - rows[1][1] * rows[2][0]))
            supplied = max([abs(a - c) for a, c in zip(tr[3:12], mat) if a is not None] or [0.0])
            # entries rounded to four digits are not exactly unit rows: adjust_matrix renormalises them, so they are
            # reproduced to the rounding only
            if orth > 1e-6 or (det < 0 and cls != 'improper') or supplied > (5e-3 if rounded else 1e-9):
                fails.append(fail('violation', 'TR card %r is completed to %r: orthogonality defect %.2e, det %.3f, supplied entries '
                                  'reproduced to %.2e' % (tr, mat, orth, det, supplied), {'stream': 'trnorm', 'class': 'completion', 'kind': kind}, rp))
    return dict(hashes=[key], nontrivial_hashes=[key] if len(tr) > 3 else [], dist={'trnorm:' + kind: 1, 'trnorm:rot-' + cls: 1},
                sample={'tr': tr, 'code': code if isinstance(code, tuple) else code[:12]}, failures=fails)


def run_case(stream, seed, ctx, params):
    rng = random.Random(seed)
    npts = params.get('npts', 250)
    if stream == 'trnorm':
        return trnorm_case(seed, rng, ctx)
    if stream == 'pottransform':
        return pottransform_case(seed, rng, ctx)
    if stream == 'trmodel':
        # Lean model of transformation() + conversion vs the code, one transformed card (tori excluded: the
        # code classifies their axis with a tolerance, the model with equality)
        from . import c02
        kinds = [k for k in P.ELEMENTARY if k not in ('tx', 'ty', 'tz')]
        kind = kinds[seed % len(kinds)]
        mn, ps = (P.sq_card(rng) if kind == 'sq' else G.elementary(rng, [kind]))
        m, cls = G.random_motion(rng)
        return c02.compare_card(ctx, 'trmodel', mn, ps, 'trmodel', extra_dist={'trmodel:rot-' + cls: 1}, tr=m.nums())
    if stream == 'trsurf':
        if rng.random() < 0.7:
            kind = P.ELEMENTARY[seed % len(P.ELEMENTARY)]
            mn, ps = (P.sq_card(rng) if kind == 'sq' else G.elementary(rng, [kind]))
            if mn == 'sq' and P.sq_positive_centre(ps):
                ps[6] = -abs(ps[6])
            if rng.random() < 0.08:
                # an ellipsoid hundreds of metres across written as SQ: coefficients of the order of 1e-9 next to G = -1
                # (an equation has no scale of its own); probed at its own scale
                ab = rng.sample([1e-9, 2e-9, 4e-9, 9e-9, 2.5e-9], 3)
                mn, ps = 'sq', ab + [0.0, 0.0, 0.0, -1.0] + [rng.choice(G.HALF) for _ in range(3)]
                kind = 'sq'
            facet = None
        else:
            kind = P.MACRO[seed % len(P.MACRO)]
            mn, ps = G.macrobody(rng, [kind])
            facet = None if rng.random() < 0.5 else rng.randint(1, G.nfacets(mn, ps))
        for _ in range(20):
            if rng.random() < 0.08:
                # a matrix of determinant -1 (a mirror image), written with all nine entries: kept as it is
                m, cls = G.random_motion(rng, 'mirror')
                card, sp = P.spell_tr(rng, 7, m, ['full', 'full13'])
            else:
                m, cls = G.random_motion(rng)
                card, sp = P.spell_tr(rng, 7, m)
            if P.sin_beta_ok(m, sp):
                break
        d = P.probe_deck(mn, ps, tr=m, trnum=7, facet=facet)
        d.trs[7] = (m, {'raw': card, 'cls': cls})
        if facet is None and mn == 'sq' and abs(ps[0]) < 1e-7 and ps[6] == -1.0:
            d.probe_points = [[c_ * 2.0e4 for c_ in q] for q in G.sample_points(rng, 200)]
        r = run_deck(ctx, stream, d, [], rng, npts=npts, extra_sig={'kind': kind, 'spelling': sp, 'rot': cls},
                     known_classes=_known)
        if r is not None:
            r['dist']['tr:%s' % sp] = 1
            r['dist']['rot:%s' % cls] = 1
        return r
    if stream == 'trcl':
        # a BSP deck whose cells carry TRCL would overlap; use: cell A = region with TRCL, others as complements
        d = D.Deck()
        mn1, ps1 = G.elementary(rng, ['so', 's', 'cz', 'c/x', 'kz1', 'k/x1', 'tz', 'sq', 'gq', 'x'])
        if rng.random() < 0.4:
            mn1, ps1 = G.macrobody(rng)
        mn2, ps2 = G.elementary(rng, ['px', 'py', 'pz', 'p'])
        d.surfs = [D.Surf(1, mn1, ps1), D.Surf(2, mn2, ps2)]
        m, cls = G.random_motion(rng)
        c1 = D.Cell(5, ('i', ('s', -1), ('s', 2)), mat=1, rho='-1.0', trcl=m)
        how = rng.choice(['num', 'inline', 'star'])
        if how == 'num':
            card, sp = P.spell_tr(rng, 4, m)
            if not P.sin_beta_ok(m, sp):
                card, sp = P.spell_tr(rng, 4, m, ['full'])
            d.trs[4] = (m, {'raw': card, 'cls': cls})
            c1.hints['trcl_num'] = 4
        elif how == 'star' and cls != 'generic':
            c1.hints['trcl_star'] = True
        d.cells = [c1, D.Cell(6, ('cc', 5), mat=2, rho='-2.0')]
        d.mats = {1: [('13027', '1.0')], 2: [('26056', '1.0')]}
        return run_deck(ctx, stream, d, [], rng, npts=npts, extra_sig={'trcl': how, 'rot': cls})
    if stream == 'implicit':
        d, variant, cls = implicit_deck(rng)
        return run_deck(ctx, stream, d, [], rng, npts=npts, extra_sig={'variant': variant, 'rot': cls})
    if rng.random() < 0.4:
        # lattice cells carrying a FILL transformation or a TRCL: the transformation is composed with the translation
        # of every element (compose_transform); improper matrices in a good share of the decks
        classes = ['mirror'] if rng.random() < 0.4 else ['perm', 'pyth', 'generic', 'mirror']
        d = U.build_universe_deck(rng, depth=2, macro_p=0.0, tr_p=0.0, fill_tr_p=0.5, trcl_p=0.4, lattice_p=0.7,
                                  lat_tr_p=0.6, lat_trcl_p=0.5, rot_classes=classes)
        return run_deck(ctx, stream, d, [], rng, npts=npts)
    d = U.build_universe_deck(rng, depth=rng.randint(1, 2), macro_p=0.3, tr_p=0.3, fill_tr_p=0.9, trcl_p=0.5,
                              rot_classes=['perm', 'pyth', 'generic', 'mirror'])
    return run_deck(ctx, stream, d, [], rng, npts=npts)


def replay(payload, ctx):
    p = payload.get('payload') or {}
    if 'tr' in p and 'mnemonic' not in p:
        from t4_geom_convert.Kernel.Transformation.Transformation import normalize_transform
        try:
            code = normalize_transform(list(p['tr']))
        except Exception as ex:  # noqa
            code = 'raises %s: %s' % (type(ex).__name__, ex)
        toks = ' '.join('j' if x is None else repr(float(x)) for x in p['tr'])
        return {'code': repr(code), 'model': ctx['drv'].ask('trnorm ' + toks)}
    from . import c02
    return c02.replay(payload, ctx)
