"""C18 — conversion is deterministic and leaves no state between runs."""
import hashlib
import os
import random
import subprocess
import sys
import tempfile

from .geomcommon import *  # noqa
from .. import gen_univ as U

ID = 'C18'
LEVEL = 'proof'
RULE = ('stream hashseed: a generated deck (several densities per material, universes, lattices, implicit surfaces, '
        'cones: everything that creates sets / auxiliary numbering) is converted in fresh interpreters under '
        'PYTHONHASHSEED = 0, 1, 4242 and random; the bytes (minus the header comment, which echoes argv) must be '
        'identical. Stream history: in one interpreter, deck B is converted, then 2–4 other decks (one of them '
        'failing), then B again; both outputs must equal the fresh-process output of B; the input file is hashed '
        'before and after. Distinct = distinct deck / history.')
NOT_PROVED = ["CPython's int-set iteration order being a function of the insertion sequence, and the absence of hidden "
              'module state, are runtime facts outside any model: they are what the two streams probe']
ASSUMPTIONS = ['the header comment (version, argv echo) is excluded from the comparison']
LEVEL_NOTE = 'partial'
THOROUGH_SCALE = 3


def plan(tier):
    q = tier == 'quick'
    return [('hashseed', 14 if q else 150, {}), ('history', 110 if q else 1200, {}), ('volstr', 300 if q else 5000, {})]


def search_plan(tier, disagreements):
    return [('history', 200 if tier == 'quick' else 1500, {})]


def strip_header(t4):
    return '\n'.join(l for l in t4.splitlines() if not l.startswith('//'))


def gen_deck(rng):
    m = rng.random()
    if m < 0.07:
        # members of unions that become empty once identical surfaces are merged: the clean-up passes decide
        return G.contradictory_union_deck(rng)
    if m < 0.13:
        # a plane of the deck's own where the auxiliary union planes usually go, and unions that need them
        return G.aux_plane_deck(rng)
    if m < 0.21:
        # a very long intersection: interpreter-wide settings a conversion might touch (recursion limit) must not leak
        return G.deep_cell_deck(rng)
    if m < 0.27:
        # surfaces referred to as seen from a cell with a TRCL (1000*cell+surface): generated, hence commented, surfaces
        from . import c04
        return c04.implicit_deck(rng)[0]
    if m < 0.35:
        d = G.build_flat_deck(rng, macro_p=0.3, tr_p=0.2)
    elif m < 0.7:
        d = U.build_universe_deck(rng, depth=rng.randint(1, 3), macro_p=0.15, tr_p=0.1, fill_tr_p=0.6, trcl_p=0.4)
    else:
        d = U.build_universe_deck(rng, depth=2, macro_p=0.0, tr_p=0.0, fill_tr_p=0.3, trcl_p=0.3, lattice_p=0.6)
    if rng.random() < 0.12:
        # negative universe numbers (u=-n: "not truncated by the filled cell"): whatever the converter makes of them,
        # it must make the same of them every time
        us = sorted({c.u for c in d.cells if c.u and not c.lat})
        if us:
            u = rng.choice(us)
            for c in d.cells:
                if c.u == u and 'raw' not in c.hints:
                    c.hints['neg_u'] = True
    # several densities per material
    dens = ['-2.7', '-2.75', '-1.0', '0.05', '-7.8', '1.2-2', '-3.3', '0.07']
    for c in d.cells:
        if c.mat:
            c.rho = rng.choice(dens)
    return d


class _Hang(BaseException):
    pass


def limited_convert(text, args, name, secs=25):
    """impl.convert with a time limit of its own (nested inside the framework's per-case alarm, which is put back with
    the time it had left): a conversion that a fresh interpreter finishes in a second and that does not come back here
    is a dependence on the history of the process, not an infrastructure failure"""
    import signal
    import time as _time

    def on_alarm(signum, frame):
        raise _Hang()
    t0 = _time.time()
    old = signal.signal(signal.SIGALRM, on_alarm)
    left = signal.alarm(secs)
    try:
        return impl.convert(text, args, name=name)
    except _Hang:
        class R:
            ok, t4, exc_type, exc_msg = False, None, 'Hang', 'conversion did not finish within %d s' % secs
        return R()
    finally:
        signal.alarm(0)
        signal.signal(signal.SIGALRM, old)
        if left:
            signal.alarm(max(1, int(left - (_time.time() - t0))))


def fresh(text, args, hashseed):
    d = tempfile.mkdtemp(prefix='t4v-c18-')
    try:
        deck = os.path.join(d, 'deck.imcnp')
        out = os.path.join(d, 'out.t4')
        open(deck, 'w').write(text)
        env = dict(os.environ)
        if hashseed is None:
            env.pop('PYTHONHASHSEED', None)
        else:
            env['PYTHONHASHSEED'] = str(hashseed)
        verif = os.path.dirname(os.path.dirname(os.path.dirname(os.path.abspath(__file__))))
        p = subprocess.run([sys.executable, '-m', 'harness.subconv', deck, out] + list(args), cwd=verif, env=env,
                           capture_output=True, text=True, timeout=120)
        if not os.path.exists(out):
            return 'SUBPROCESS FAILED rc=%d %s' % (p.returncode, p.stderr[-300:])
        return open(out).read()
    finally:
        import shutil
        shutil.rmtree(d, ignore_errors=True)


def sibling(d, rng):
    """a different deck with the SAME cell, surface, universe, TR and material numbers as `d` (expressions enlarged or
    reduced, parameters shifted, densities changed): whatever a conversion remembers under those numbers is stale
    for `d`"""
    import copy
    e = copy.deepcopy(d)
    for c in e.cells:
        if c.hints.get('raw') is not None:
            continue
        leaves = D.expr_leaves(c.expr)
        m = rng.random()
        if m < 0.6 and leaves:
            extra = rng.choice(leaves)
            c.expr = ('i', c.expr, extra) if rng.random() < 0.5 else ('u', ('i', c.expr, extra), ('i', c.expr, rng.choice(leaves)))
        elif m < 0.9 and leaves:
            c.expr = rng.choice(leaves)
        if c.rho is not None and rng.random() < 0.5:
            c.rho = rng.choice(['-3.25', '0.0625', '-11.5'])
    for s_ in e.surfs:
        if s_.mn in ('px', 'py', 'pz', 'so', 'cx', 'cy', 'cz', 's', 'c/x', 'c/y', 'c/z') and rng.random() < 0.5:
            s_.ps = [p_ + 0.25 if i_ == len(s_.ps) - 1 else p_ for i_, p_ in enumerate(s_.ps)]
    for num, (m_, sp) in list(e.trs.items()):
        if rng.random() < 0.5 and 'raw' not in sp:
            e.trs[num] = (D.Motion([x + 0.5 for x in m_.o], list(m_.b)), sp)
            for s_ in e.surfs:
                if s_.trnum == num:
                    s_.tr = e.trs[num][0]
    return e


def volstr_case(seed, rng, ctx):
    """VolumeT4.__str__ vs the Lean model, the sets built in a shuffled insertion order"""
    from t4_geom_convert.Kernel.Volume.VolumeT4 import VolumeT4
    ids = rng.sample(range(1, 3000), rng.randint(0, 9)) + rng.sample(range(100000, 100090), rng.randint(0, 3))
    rng.shuffle(ids)
    k = rng.randint(0, len(ids))
    pl, mi = ids[:k], ids[k:]
    op = rng.choice([None, None, 'UNION', 'INTE'])
    opids = rng.sample(range(1, 500), rng.randint(1, 4)) if op else []
    fict = rng.random() < 0.3
    code = str(VolumeT4(pluses=pl, minuses=mi, ops=(op, opids) if op else None, fictive=fict))
    pl2, mi2 = list(pl), list(mi)
    rng.shuffle(pl2)
    rng.shuffle(mi2)
    code2 = str(VolumeT4(pluses=pl2, minuses=mi2, ops=(op, opids) if op else None, fictive=fict))
    resp = ctx['drv'].ask('volline %d %s %s / %s / %s' % (fict, op or '-', ' '.join(map(str, pl)), ' '.join(map(str, mi)),
                                                          ' '.join(map(str, opids))))
    model = lean.unhx(resp.split()[1]) if resp.startswith('ok ') else resp
    fails = []
    rp = {'pluses': pl, 'minuses': mi, 'op': op, 'opids': opids, 'fictive': fict}
    if model != code:
        fails.append(fail('disagreement', 'VolumeT4.__str__: code %r / model %r' % (code, model), {'stream': 'volstr'}, rp))
    if code2 != code:
        fails.append(fail('violation', 'VolumeT4.__str__ depends on the insertion order: %r / %r' % (code, code2),
                          {'stream': 'volstr', 'class': 'order-dependent'}, rp))
    key = h((tuple(pl), tuple(mi), op, tuple(opids), fict))
    return dict(hashes=[key], nontrivial_hashes=[key] if len(ids) > 1 else [], dist={'volstr:ids': len(ids)},
                sample={'line': code}, failures=fails)


def run_case(stream, seed, ctx, params):
    rng = random.Random(seed)
    if stream == 'volstr':
        return volstr_case(seed, rng, ctx)
    d = gen_deck(rng)
    text = D.render_deck(d, D.Layout(rng))
    args = random_options(rng)
    key = h((text, tuple(args)))
    replay = {'deck': text, 'args': args}
    fails = []
    if stream == 'hashseed':
        outs = {}
        for hs in (0, 1, 4242, None):
            outs[hs] = strip_header(fresh(text, args, hs))
        ref = outs[0]
        if ref.startswith('SUBPROCESS FAILED'):
            return dict(hashes=[key], nontrivial_hashes=[], dist={}, sample=None,
                        failures=[fail('infra', ref, {'stream': 'hashseed'}, None)])
        for hs, o in outs.items():
            if o != ref:
                a, b = ref.splitlines(), o.splitlines()
                diff = [(x, y) for x, y in zip(a, b) if x != y][:2]
                fails.append(fail('violation', 'output depends on PYTHONHASHSEED (0 vs %s): %r' % (hs, diff),
                                  {'stream': 'hashseed', 'class': 'hash-seed'}, dict(replay, hashseed=hs)))
                break
        return dict(evaluations=4, hashes=[key], nontrivial_hashes=[key], dist={'hashseed:decks': 1},
                    sample={'deck': text[:300]}, failures=fails)
    # history stream
    path_hash_before = hashlib.sha1(text.encode()).hexdigest()
    sib_first = seed % 2 == 0
    if sib_first:
        # a sibling of B converted BEFORE B: whatever a conversion memoises under B's numbers (and would keep when B
        # comes first) is then stale for B's first conversion, which is compared with a fresh process below
        try:
            limited_convert(D.render_deck(sibling(d, rng), D.Layout(rng)), args, name='sibling')
        except Exception:  # noqa
            pass
    r1 = limited_convert(text, args, name='deckB')
    inp = os.path.join(impl.scratch_dir(), 'deckB.imcnp')
    on_disk = hashlib.sha1(open(inp, 'rb').read()).hexdigest()
    others = []
    # first a sibling of B: same numbers everywhere, different contents
    try:
        st = D.render_deck(sibling(d, rng), D.Layout(rng))
        others.append(st)
        limited_convert(st, args, name='sibling')
    except Exception:  # noqa  (a sibling that cannot be rendered is simply not used)
        pass
    for k in range(rng.randint(2, 4)):
        od = gen_deck(rng)
        # reuse cell / surface numbers of B on purpose (fresh generators start numbering alike)
        ot = D.render_deck(od, D.Layout(rng))
        if rng.random() < 0.25:
            ot = ot.replace(' so ', ' qq ', 1) if ' so ' in ot else ot + 'tr9 0 0 0 1 0 0 0 1 0 0 0 1 -1\n'
        others.append(ot)
        limited_convert(ot, random_options(rng), name='other%d' % k)
    r2 = limited_convert(text, args, name='deckB')
    on_disk2 = hashlib.sha1(open(inp, 'rb').read()).hexdigest()
    if on_disk != path_hash_before or on_disk2 != path_hash_before:
        fails.append(fail('violation', 'the input file was modified by the conversion', {'stream': 'history', 'class': 'input-modified'}, replay))
    a = strip_header(r1.t4) if r1.ok else 'EXC ' + str(r1.exc_type)
    b = strip_header(r2.t4) if r2.ok else 'EXC ' + str(r2.exc_type)
    if a != b:
        diff = [(x, y) for x, y in zip(a.splitlines(), b.splitlines()) if x != y][:2] or [('length', len(a), len(b))]
        fails.append(fail('violation', 'converting the same deck again after %d other conversions gives a different result: %r'
                          % (len(others), diff), {'stream': 'history', 'class': 'history-dependent'},
                          dict(replay, others=others)))
    # this worker process has a long history of earlier conversions: compare with a fresh interpreter now and then
    if (seed % 6 == 0 or sib_first or getattr(d, '_always_fresh', False) or r1.exc_type == 'Hang' or r2.exc_type == 'Hang') \
            and (r1.ok or r1.exc_type == 'Hang'):
        f = strip_header(fresh(text, args, 0))
        if not f.startswith('SUBPROCESS FAILED') and f != a:
            diff = [(x, y) for x, y in zip(f.splitlines(), a.splitlines()) if x != y][:2] or [('length', len(f), len(a))]
            fails.append(fail('violation', 'output in a long-lived interpreter differs from a fresh process: %r' % (diff,),
                              {'stream': 'history', 'class': 'differs-from-fresh'}, replay))
    return dict(hashes=[key], nontrivial_hashes=[key], dist={'history:others': len(others)},
                sample={'deck': text[:200], 'n_others': len(others)}, failures=fails[:3])


def replay(payload, ctx):
    p = payload.get('payload') or {}
    if 'pluses' in p:
        from t4_geom_convert.Kernel.Volume.VolumeT4 import VolumeT4
        return {'code': str(VolumeT4(pluses=p['pluses'], minuses=p['minuses'],
                                     ops=(p['op'], p['opids']) if p['op'] else None, fictive=p['fictive']))}
    a = strip_header(fresh(p['deck'], p.get('args') or [], 0))
    b = strip_header(fresh(p['deck'], p.get('args') or [], p.get('hashseed', 1)))
    return {'violation': a != b}
