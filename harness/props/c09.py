"""C09 — each volume gets the material and density of the owning MCNP cell."""
import random
import re

from .geomcommon import *  # noqa
from .. import gen_univ as U

ID = 'C09'
LEVEL = 'proof'
RULE = ('streams: owner (universe / lattice decks incl. lattices filled with their own universe; the Lean point monitor '
        'compares, for every sample point, provenance AND composition (material number, numeric density) of the owning '
        'volume with the leaf cell of the MCNP hierarchy); spelling (cells sharing one material with densities drawn '
        'from spelling families — trailing zeros, 1. / 1.0 / 1.00, e / E / d / D / bare-sign exponents — and from '
        'numerically different values: same spelling class (Lean spec spellClass) ⇒ one composition name, different '
        'value ⇒ different names, every GEOMCOMP name defined in COMPOSITION); normfloat (normalize_float vs the Lean '
        'model on an enumerated grammar of literals); geomcomp (constructGeomCompT4 of real conversions — universe, '
        'lattice and LIKE decks, all option sets — vs the Lean model: same names in the same order, same declared '
        'counts, same volume lists). Non-trivial = deck has ≥ 2 cells of one material.')
NOT_PROVED = ['geomcomp_attachment / attached_to_owner are about the GEOMCOMP model (tied to the code by the geomcomp stream) '
              'and leaf_material_is_filler about the pot_fill model; that the owner recorded in a volume is the cell '
              'that geometrically owns its points is C05 (locate theorems + point monitor of the owner stream); '
              'numerically equal densities written with different exponents get different keys by design (see ASSUMPTIONS)']
ASSUMPTIONS = ["numerically equal densities written with different exponents (e.g. -0.27E1 vs -2.7) are different "
               "spellings in the property's sense and may get two compositions"]

FAMILIES = [
    ['-2.7', '-2.70', '-2.700', '-2.7000'],
    ['-1.', '-1.0', '-1.00', '-1.000'],
    ['1.2-4', '1.2e-4', '1.2E-4', '1.2d-4', '1.2D-4'],
    ['-2.7e0', '-2.7E0', '-2.7d0', '-2.7D0'],
    ['-2.7+0', '-2.7e+0', '-2.7E+0'],
    ['0.05', '0.050', '0.0500'],
    ['5-2', '5e-2', '5E-2', '5d-2'],
    ['-7.8', '-7.80'],
    ['-.23', '-.230'],
    ['10.', '10.0'],
    ['10e-3', '10E-3', '10d-3', '10-3'],          # integer mantissas ending in zero
    ['-270-2', '-270e-2', '-270D-2'],
    ['-100e-1', '-100-1'],
]
DISTINCT = ['-2.7', '-2.71', '-2.6999', '-1.0', '-1.5', '0.05', '0.051', '1.2-4', '1.2-3', '-7.8', '-0.27', '-27.']
# numerically different densities that agree to 6, 7, 8 … significant digits: they must not share a composition
NEAR = [('10e-3', '1e-3'), ('-270-2', '-27-2'), ('-100e-1', '-1e-1'), ('20e0', '2e0'),
        ('-0.7123456', '-0.7123461'), ('6.40875-2', '6.408751-2'), ('-2.7', '-2.7000001'), ('-2.70000001', '-2.70000002'),
        ('1.23456789', '1.23456788'), ('-1.0', '-1.000000001'), ('0.05', '0.0500000001'), ('-7.8e0', '-7.80000004')]


def plan(tier):
    q = tier == 'quick'
    return [('owner', 200 if q else 3500, {}), ('spelling', 200 if q else 3000, {}), ('normfloat', 1 if q else 4, {}),
            ('geomcomp', 150 if q else 3000, {})]


def search_plan(tier, disagreements):
    return [('owner', 800, {}), ('spelling', 800, {})]


def literals(n_exhaustive):
    """enumerated grammar of Fortran real literals"""
    signs = ['', '-', '+']
    ips = ['', '0', '1', '27', '10', '100', '007']
    fps = [None, '', '0', '00', '5', '50', '500', '05', '230', '000']
    exps = [None, 'e0', 'E0', 'e00', 'd0', 'D1', 'e-2', 'e+2', '-2', '+2', '+0', '-0', 'e10', 'E-10', '+10', 'e5', 'd-3']
    out = []
    for s in signs:
        for ip in ips:
            for fp in fps:
                if ip == '' and (fp is None or fp == ''):
                    continue
                for ex in exps:
                    out.append(s + ip + ('' if fp is None else '.' + fp) + ('' if ex is None else ex))
    return out


def run_case(stream, seed, ctx, params):
    rng = random.Random(seed)
    drv = ctx['drv']
    if stream == 'geomcomp':
        kind = rng.random()
        if kind < 0.5:
            d = U.build_universe_deck(rng, depth=rng.randint(1, 3), macro_p=0.1, tr_p=0.0, fill_tr_p=0.4, trcl_p=0.2,
                                      reuse_p=0.5)
        elif kind < 0.8:
            d = U.build_universe_deck(rng, depth=2, macro_p=0.0, tr_p=0.0, fill_tr_p=0.2, trcl_p=0.1, lattice_p=0.7, lat_big_p=0.35)
        else:
            d = G.build_flat_deck(rng, macro_p=0.1, ncells=rng.randint(3, 6), imp0_p=0.2)
        for c in d.cells:
            if c.mat and rng.random() < 0.5:
                c.rho = rng.choice(rng.choice(FAMILIES))
        args = random_options(rng)
        text = D.render_deck(d, D.Layout(rng))
        argv = list(args) + [x for lo in (d.lattice_opts or []) for x in ('--lattice', lo)]
        key = h((text, tuple(argv)))
        res, cap = C.convert_capture(text, argv)
        if not res.ok:
            return None if is_degenerate(res) else dict(hashes=[key], nontrivial_hashes=[], dist={'geomcomp:exception': 1},
                                                        sample=None, failures=[])
        if any('constructGeomCompT4' in m for m in cap.missing):
            return dict(hashes=[key], nontrivial_hashes=[], dist={'geomcomp:anchor-missing': 1}, sample=None,
                        failures=[fail('disagreement', 'constructGeomCompT4 is no longer called by writeT4GeomComp under this name',
                                       {'stream': 'geomcomp', 'stage': 'anchor'}, {'deck': text, 'args': argv})])
        gc = cap.geomcomp
        if gc is None:
            return dict(hashes=[key], nontrivial_hashes=[], dist={'geomcomp:not-called': 1}, sample=None,
                        failures=[fail('infra', 'geomcomp capture: %r' % (cap.error,), {'stream': 'geomcomp'}, None)] if cap.error else [])
        resp = drv.ask('geomcomp ' + lean.hx(gc['request']))
        fails = []
        if resp.rstrip() != gc['expected'].rstrip():
            fails.append(fail('disagreement', 'constructGeomCompT4: code %s / model %s' % (gc['expected'][:400], resp[:400]),
                              {'stream': 'geomcomp'}, {'deck': text, 'args': argv, 'request': gc['request']}))
        # what is written is what was constructed
        block = res.t4[res.t4.find('GEOMCOMP'):res.t4.find('END_GEOMCOMP')].split('\n')[1:]
        written = ['(g %s %s)' % (lean.hx(ln.split()[0][1:]), ' '.join(ln.split()[1:])) for ln in block if ln.strip()]
        if ('ok ' + ' '.join(written)).rstrip() != gc['expected'].rstrip():
            fails.append(fail('disagreement', 'GEOMCOMP block differs from what constructGeomCompT4 returned: %r' % (written[:4],),
                              {'stream': 'geomcomp', 'stage': 'writer'}, {'deck': text, 'args': argv}))
        ngroups = gc['expected'].count('(g ')
        return dict(hashes=[key], nontrivial_hashes=[key] if ngroups >= 2 else [],
                    dist={'geomcomp:groups': ngroups, 'geomcomp:fictive-volumes': gc['request'].count(' F ') + gc['request'].count(' F)')},
                    sample={'expected': gc['expected'][:300]}, failures=fails)
    if stream == 'normfloat':
        from t4_geom_convert.Kernel.Utils import normalize_float
        lits = literals(0)
        fails = []
        chunk = lits if seed % 1000003 == 0 else rng.sample(lits, len(lits))
        resp = drv.ask_many(['normfloat ' + lean.hx(l) for l in chunk])
        bad = 0
        for l, r in zip(chunk, resp):
            try:
                a = normalize_float(l)
            except Exception as e:  # noqa
                a = 'EXC ' + type(e).__name__
            b = lean.unhx(r[3:]) if r.startswith('ok ') else r
            if a != b:
                bad += 1
                if bad <= 5:
                    fails.append(fail('disagreement', 'normalize_float(%r): code %r / model %r' % (l, a, b),
                                      {'stream': 'normfloat'}, {'literal': l}))
            # value preservation (spec monitor): the normalised literal reads back to the same number
            try:
                if not a.startswith('EXC') and float(a) != float(l.lower().replace('d', 'e') if re.search('[eEdD]', l) else re.sub(r'(?<=[0-9.])([-+])', r'e\1', l)):
                    fails.append(fail('violation', 'normalize_float(%r) = %r changes the value' % (l, a),
                                      {'stream': 'normfloat', 'class': 'value-changed'}, {'literal': l}))
            except ValueError:
                fails.append(fail('violation', 'normalize_float(%r) = %r is not a number any more' % (l, a),
                                  {'stream': 'normfloat', 'class': 'not-a-number'}, {'literal': l}))
        hs = [h(l) for l in chunk]
        return dict(evaluations=len(chunk), hashes=hs, nontrivial_hashes=hs, dist={'normfloat:literals': len(chunk)},
                    sample={'literals': chunk[:8]}, failures=fails[:10])
    if stream == 'owner':
        kind = rng.random()
        if kind < 0.6:
            d = U.build_universe_deck(rng, depth=rng.randint(1, 3), macro_p=0.1, tr_p=0.0, fill_tr_p=0.4, trcl_p=0.2,
                                      reuse_p=0.5)
        else:
            d = U.build_universe_deck(rng, depth=2, macro_p=0.0, tr_p=0.0, fill_tr_p=0.2, trcl_p=0.1, lattice_p=0.7, lat_big_p=0.35)
        if rng.random() < 0.4:
            # LIKE n BUT cells overriding material / density (incl. chains where both levels override)
            from .. import gen_like as L
            from ..gen_univ import _cyclic
            L.add_like_cells(d, rng, chain_p=0.7, keys=['mat', 'rho', 'trcl', 'u'])
            if _cyclic(d):
                return None
        if rng.random() < 0.35:
            G.round_mats(d, rng)       # material numbers such as 10, 100, 20 next to 1 and 2
        return run_deck(ctx, stream, d, random_options(rng), rng, npts=150, with_comp=True)
    # spelling stream ------------------------------------------------------------------
    d = G.build_flat_deck(rng, macro_p=0.0, ncells=rng.randint(3, 6), depth=rng.randint(2, 4), imp0_p=0.0, use_cc=False)
    fam = rng.choice(FAMILIES)
    pool = [rng.choice(fam) for _ in range(3)] + rng.sample(DISTINCT, 2)
    if rng.random() < 0.5:
        pool = pool[1:] + list(rng.choice(NEAR))
    for c in d.cells:
        c.mat = rng.choice([1, 1, 1, 2])
        c.rho = rng.choice(pool)
    text = D.render_deck(d, D.Layout(rng))
    res = impl.convert(text, [])
    key = h(text)
    replay = {'deck': text, 'args': [], 'sexp': d.sexp()}
    fails = []
    if not res.ok:
        if is_degenerate(res):
            return None
        return dict(hashes=[key], nontrivial_hashes=[key], dist={'spelling:exception': 1}, sample=None,
                    failures=[fail('violation', 'valid deck rejected: %s: %s' % (res.exc_type, (res.exc_msg or '')[:200]),
                                   {'stream': 'spelling', 'class': 'exception', 'error': res.exc_type}, replay)])
    okwf, rep = wf(ctx, res.t4)
    if not okwf:
        fails.append(fail('violation', 'file not structurally valid: ' + rep[:500], {'stream': 'spelling', 'class': 'not-wellformed'}, replay))
    # composition name of each converted cell
    names = {}
    for m in re.finditer(r'^(m\S+) (\d+) (.*)$', res.t4[res.t4.find('GEOMCOMP'):], re.M):
        for vid in m.group(3).split():
            names[int(vid)] = m.group(1)
    classes = {}
    for c in d.cells:
        if c.id not in names:
            continue
        r = drv.ask('spellclass ' + lean.hx(c.rho))
        cls = lean.unhx(r.split()[1]) if r.startswith('ok ') and r != 'ok none' else None
        classes[c.id] = (c.mat, cls, float(re.sub(r'(?<=[0-9.])([-+])', r'e\1', c.rho.lower().replace('d', 'e')) if not re.search('[eEdD]', c.rho) else c.rho.lower().replace('d', 'e')))
    ids = sorted(classes)
    for i in ids:
        for j in ids:
            if i >= j or classes[i][0] != classes[j][0]:
                continue
            same_class = classes[i][1] is not None and classes[i][1] == classes[j][1]
            if same_class and names[i] != names[j]:
                fails.append(fail('violation', 'densities %r and %r differ only in spelling but got compositions %s / %s'
                                  % (d.cell(i).rho, d.cell(j).rho, names[i], names[j]),
                                  {'stream': 'spelling', 'class': 'respelling-split'}, replay))
            if classes[i][2] != classes[j][2] and names[i] == names[j]:
                fails.append(fail('violation', 'densities %r and %r differ numerically but share composition %s'
                                  % (d.cell(i).rho, d.cell(j).rho, names[i]),
                                  {'stream': 'spelling', 'class': 'distinct-merged'}, replay))
    pts = G.sample_points(rng, 80)
    agree, skip, mm = monitor(ctx, d, res.t4, pts)
    if mm:
        fails.append(fail('violation', 'owner composition differs: ' + ' | '.join(mm[:2]),
                          {'stream': 'spelling', 'class': 'point-mismatch'}, dict(replay, points=pts)))
    return dict(hashes=[key], nontrivial_hashes=[key], dist={'spelling:family-' + fam[0]: 1},
                sample={'densities': [c.rho for c in d.cells]}, failures=fails[:6])


replay = replay_deck
