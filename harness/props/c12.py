"""C12 — exactly the zero-importance cells are left out."""
import random

from .geomcommon import *  # noqa
from .. import gen_univ as U

ID = 'C12'
LEVEL = 'proof'
RULE = ('flat and universe decks whose cells get per-particle importances (n, p, e; values 0, 1, 2, 4, 0.5 …) written '
        'on the cell cards (imp:n=… imp:p=…, imp:n,p=…), on IMP:x data cards by cell position, or mixed; the data cards are '
        'compressed by the generator into nR / xM / nI shorthand (any position, zero cells first / middle / last, '
        'cells listed in non-ascending number order). Checked on the real output: the set of omitted level-0 cells '
        '(no VOLU, listed in the NOTE) equals the set of cells whose importance is zero for every particle; every '
        'other cell owns its points (Lean point monitor); the importance the code gave every cell equals the Lean '
        'model cellImportance of its keywords / the expanded data cards (cellimp). Helper stream: expand_data_card vs the Lean model on '
        'random shorthand token lists. Non-trivial = deck has both zero and non-zero importance cells.')
NOT_PROVED = ['that the per-particle keyword values handed to cellImportance are those of the card after LIKE n BUT '
              '(later value of a particle wins) is C15 later_importance_wins; importances are assumed non-negative in '
              'maximum_zero_iff_all_zero (MCNP does not allow negative importances)']
ASSUMPTIONS = ['no nJ entries in IMP cards (the converter cannot give such a cell an importance)']
PARTS = ['n', 'p', 'e']


def plan(tier):
    q = tier == 'quick'
    return [('imp', 260 if q else 5000, {}), ('expand', 400 if q else 8000, {})]


def search_plan(tier, disagreements):
    return [('imp', 1200 if tier == 'quick' else 8000, {})]


def fmt(v, rng):
    """one of the spellings MCNP reads as v: 1 / 1.0 / 1. / +1 / 1e0, 0.5 / .5 / +.5 / 5-1"""
    if v == int(v):
        t = str(int(v)) if rng.random() < 0.5 else D.fnum(float(v))
        m = rng.random()
        if m < 0.12:
            t = str(int(v)) + '.'
        elif m < 0.2 and v > 0:
            t = '+' + t
        return t
    t = D.fnum(v)
    m = rng.random()
    if t.startswith('0.') and m < 0.4:
        t = t[1:]
    if m > 0.85 and v > 0:
        t = '+' + t
    return t


def compress(vals, rng):
    """spell a list of numbers with MCNP shorthand (never changes the meaning)"""
    toks = []
    i = 0
    n = len(vals)
    while i < n:
        v = vals[i]
        # run of equal values → nR
        j = i
        while j + 1 < n and vals[j + 1] == v:
            j += 1
        run = j - i
        if i > 0 and vals[i - 1] != 0 and rng.random() < 0.35 and v == vals[i - 1] * 2 and run == 0:
            toks.append('2m' if rng.random() < .5 else '2.0M')
            i += 1
            continue
        # arithmetic progression v, v+s, …  (at least 3 long) → kI
        if i + 2 < n and rng.random() < 0.5:
            s = vals[i + 1] - v
            k = i + 1
            while k + 1 < n and abs((vals[k + 1] - vals[k]) - s) < 1e-12 and s != 0:
                k += 1
            if k - i >= 2 and s != 0:
                toks.append(fmt(v, rng))
                toks.append('%di' % (k - i - 1) if (k - i - 1) > 1 or rng.random() < .5 else 'I')
                toks.append(fmt(vals[k], rng))
                i = k + 1
                continue
        toks.append(fmt(v, rng))
        if run >= 1 and rng.random() < 0.8:
            r = run if rng.random() < 0.7 else rng.randint(1, run)
            toks.append(('%dr' % r) if (r > 1 or rng.random() < .5) else 'R')
            i += r + 1
        else:
            i += 1
    return [t.upper() if rng.random() < 0.3 else t for t in toks]


def run_case(stream, seed, ctx, params):
    rng = random.Random(seed)
    if stream == 'expand':
        return expand_case(seed, rng, ctx)
    if rng.random() < 0.7:
        d = G.build_flat_deck(rng, macro_p=0.1, ncells=rng.randint(2, 6), depth=rng.randint(2, 4), imp0_p=0.0)
    else:
        d = U.build_universe_deck(rng, depth=1, macro_p=0.0, tr_p=0.0, fill_tr_p=0.3, trcl_p=0.0)
    if rng.random() < 0.6:
        rng.shuffle(d.cells)
    nparts = rng.randint(1, 3)
    parts = PARTS[:nparts]
    mode = rng.choice(['cards', 'data', 'mixed'])
    table = {}
    # arithmetic / geometric patterns make the shorthand generator's life interesting
    base = rng.choice([[0, 1, 2, 4], [1, 1, 1, 0], [0, 0, 1], [1, 2, 3, 4, 5], [0.5, 1, 0], [0, 1e-10, 1, 2.5e-11]])
    for c in d.cells:
        if c.u != 0:
            table[c.id] = {p: 1.0 for p in parts}
        else:
            table[c.id] = {p: float(rng.choice(base)) for p in parts}
            if rng.random() < 0.3:
                for p in parts:
                    table[c.id][p] = 0.0
    if all(max(t.values()) == 0 for cid, t in table.items() if d.cell(cid).u == 0):
        cid = next(c.id for c in d.cells if c.u == 0)
        table[cid][parts[0]] = 1.0
    for c in d.cells:
        c.imp = max(table[c.id].values())
    on_card = set()
    if mode == 'cards':
        on_card = set(table)
    elif mode == 'mixed':
        on_card = set(cid for cid in table if rng.random() < 0.4)
    if mode != 'cards':
        d.imp_cards = {}
        # a cell that states its importance on its own card takes that one: the entry at its position of the data
        # card is then immaterial, and half of the time it says the opposite (zero where the card says non-zero and
        # the reverse)
        decoy = {c.id: rng.random() < 0.5 for c in d.cells if c.id in on_card}

        def entry(c, p):
            v = table[c.id][p]
            if decoy.get(c.id):
                return float(rng.choice([1, 2])) if max(table[c.id].values()) == 0 else 0.0
            return v
        for p in parts:
            d.imp_cards[p] = compress([entry(c, p) for c in d.cells], rng)
    for c in d.cells:
        if c.id in on_card:
            if len(parts) > 1 and len(set(table[c.id].values())) == 1 and rng.random() < 0.4:
                c.hints['imp_text'] = 'imp:%s=%s' % (','.join(parts), fmt(table[c.id][parts[0]], rng))
            else:
                c.hints['imp_text'] = ' '.join('imp:%s=%s' % (p, fmt(table[c.id][p], rng)) for p in parts)
    if mode == 'cards' and len(parts) > 1 and rng.random() < 0.7:
        # a copy LIKE n BUT … whose importance override is grouped differently from the keywords of cell n
        # (imp:n,p=1 on the card, imp:n=0 imp:p=0 after BUT, or the other way round): the last value given for a
        # particle type counts, however the designators are grouped
        bases = [c for c in d.cells if c.u == 0 and c.fill is None and 'raw' not in c.hints]
        if bases:
            b = rng.choice(bases)
            tab = dict(table[b.id])
            which = list(parts) if rng.random() < 0.6 else rng.sample(parts, rng.randint(1, len(parts)))
            v = float(rng.choice([0, 0, 0, 1]))
            for p_ in which:
                tab[p_] = v
            grouped_base = ',' in b.hints.get('imp_text', '')
            if len(which) > 1 and not grouped_base:
                ov = 'imp:%s=%s' % (','.join(which), fmt(v, rng))
            else:
                ov = ' '.join('imp:%s=%s' % (p_, fmt(v, rng)) for p_ in which)
            nid_ = max(c.id for c in d.cells) + 1
            mv = D.Motion([40.0 + rng.choice(G.HALF), 0.0, 0.0], list(D.IDENT))
            lc = D.Cell(nid_, b.expr, mat=b.mat, rho=b.rho, imp=max(tab.values()), u=0, trcl=mv)
            lc.hints['raw'] = '%d like %d but trcl=(%s) %s' % (nid_, b.id, D.inline_tr(mv), ov)
            d.cells.append(lc)
            table[nid_] = tab
            on_card.add(nid_)
    text = render_with_imp(d, rng)
    res, cap = C.convert_capture(text, [])
    key = h(text)
    zero = sorted(c.id for c in d.cells if c.imp == 0)
    has_both = bool(zero) and len(zero) < len(d.cells)
    dist = {'imp:mode-' + mode: 1, 'imp:particles-%d' % nparts: 1, 'imp:zero-cells': len(zero)}
    replay = {'deck': text, 'args': [], 'sexp': d.sexp()}
    fails = []
    if not res.ok:
        if is_degenerate(res):
            return None
        fails.append(fail('violation', 'valid deck rejected: %s: %s' % (res.exc_type, (res.exc_msg or '')[:200]),
                          {'stream': 'imp', 'class': 'exception', 'error': res.exc_type}, replay))
        return dict(hashes=[key], nontrivial_hashes=[key], dist=dist, sample=None, failures=fails)
    # the Lean model of the decision (maximum of the IMP keywords of the card if any, else the entry at the card's
    # position of the per-rank maximum of the expanded data cards) vs the importance the code gave each cell
    if cap.cells_after is not None:
        req = '(imp (cells %s) (cards %s))' % (
            ' '.join('(c %s)' % ' '.join(repr(float(table[c.id][p])) for p in parts if c.id in on_card) for c in d.cells),
            ' '.join('(card %s)' % ' '.join(toks) for toks in (d.imp_cards or {}).values()))
        resp = ctx['drv'].ask('cellimp ' + lean.hx(req))
        import struct
        code_imp = ' '.join('none' if c.id not in cap.cells_after or cap.cells_after[c.id]['imp'] is None else
                            str(struct.unpack('<Q', struct.pack('<d', float(cap.cells_after[c.id]['imp'])))[0])
                            for c in d.cells)
        def zeros(txt):
            return [None if t == 'none' else struct.unpack('<d', struct.pack('<Q', int(t)))[0] == 0.0 for t in txt.split()]
        if not resp.startswith('ok ') or resp.startswith('ok error') or zeros(resp[3:]) != zeros(code_imp):
            # what the property constrains is which importances are zero
            fails.append(fail('disagreement', 'importances (zero / non-zero per cell): code %s / model %s' % (code_imp[:300], resp[:300]),
                              {'stream': 'imp', 'stage': 'cellimp'}, dict(replay, request=req)))
        elif resp != 'ok ' + code_imp:
            # observation O3: the first entry of an IMP data card written without a leading zero ('.5') is read as 5
            # (datacard.split gives the leading '.' to the card name); zero stays zero, so C12 is not concerned
            dist['imp:value-differs-but-zero-agrees'] = 1
        dist['imp:cellimp-compared'] = 1
    note = res.skipped_note() or []
    if sorted(note) != zero:
        fails.append(fail('violation', 'cells omitted per the NOTE %s ≠ cells of zero importance %s' % (sorted(note), zero),
                          {'stream': 'imp', 'class': 'note-mismatch', 'mode': mode}, replay))
    import re
    volus = set(int(x) for x in re.findall(r'^VOLU (\d+) ', res.t4, re.M))
    for z in zero:
        if z in volus:
            fails.append(fail('violation', 'zero-importance cell %d has a VOLU' % z,
                              {'stream': 'imp', 'class': 'zero-cell-written'}, replay))
    pts = G.sample_points(rng, 120)
    agree, skip, mm = monitor(ctx, d, res.t4, pts)
    if mm:
        fails.append(fail('violation', 'ownership differs from the reference (importance filter): ' + ' | '.join(mm[:2]),
                          {'stream': 'imp', 'class': 'point-mismatch', 'mode': mode}, dict(replay, points=pts)))
    return dict(hashes=[key], nontrivial_hashes=[key] if has_both else [], dist=dist,
                sample={'deck': text[:600]}, failures=fails)


def render_with_imp(d, rng):
    """cell cards carry either their hint text or nothing (data cards)"""
    saved = []
    for c in d.cells:
        saved.append(c.imp)
    lay = D.Layout(rng)
    out = [d.title]
    for c in d.cells:
        line = c.hints['raw'] if 'raw' in c.hints else D.render_cell(c, lay, with_imp=False)
        if 'imp_text' in c.hints and 'raw' not in c.hints:
            line += '  ' + c.hints['imp_text']
        out.append(D.wrap_card(line, lay=lay))
    out.append('')
    for s in d.surfs:
        out.append(D.wrap_card(D.render_surf(s), lay=lay))
    out.append('')
    for num, (m, sp) in d.trs.items():
        out.append(D.wrap_card(D.tr_card(num, m, sp.get('star', False)) if 'raw' not in sp else sp['raw']))
    for num, comp in d.mats.items():
        out.append(D.wrap_card('m%d %s' % (num, ' '.join('%s %s' % (z, f) for z, f in comp))))
    if d.imp_cards:
        for part, toks in d.imp_cards.items():
            out.append(D.wrap_card('imp:%s %s' % (part, ' '.join(toks)), lay=lay))
    out.append('')
    return '\n'.join(out)


def expand_case(seed, rng, ctx):
    from MIP.mip.datacard import expand_data_card
    import struct
    n = rng.randint(1, 8)
    toks = []
    for i in range(n):
        m = rng.random()
        if m < 0.5 or i == 0 and rng.random() < 0.8:
            toks.append(rng.choice(['0', '1', '2', '0.5', '1.5e0', '3', '-1', '4.', '10', '1.5+0', '2d0', '5-1', '1.D1']))
        elif m < 0.65:
            toks.append(rng.choice(['r', '2r', '3R', 'R']))
        elif m < 0.78:
            toks.append(rng.choice(['2m', '0.5m', '3M', '1.5m', 'm', '5-1m', '2d0M']))
        elif m < 0.9:
            toks.append(rng.choice(['i', '2i', '3I', '1i']))
        else:
            toks.append(rng.choice(['j', '2j', 'J']))
    expected = None if rng.random() < 0.6 else rng.randint(1, 10)
    try:
        vals, consumed = expand_data_card(list(toks), expected=expected, dtype='float')
        a = 'ok %d %s' % (consumed, ' '.join('J' if v is None else str(struct.unpack('<Q', struct.pack('<d', float(v)))[0]) for v in vals))
    except IndexError:
        a = 'ok error index'
    except TypeError:
        a = 'ok error type'
    except ValueError as e:
        a = 'ok error expected' if 'expected exactly' in str(e) else 'ok error value'
    b = ctx['drv'].ask('expand %s %s' % ('-' if expected is None else expected, ' '.join(toks)))
    if b.startswith('ok error value'):
        b = 'ok error value'
    fails = []
    if a != b:
        fails.append(fail('disagreement', 'expand_data_card(%r, expected=%r): code %s / model %s' % (toks, expected, a, b),
                          {'stream': 'expand'}, {'tokens': toks, 'expected': expected}))
    return dict(hashes=[h((tuple(toks), expected))], nontrivial_hashes=[h((tuple(toks), expected))] if len(toks) > 1 else [],
                dist={'expand:error' if 'error' in a else 'expand:ok': 1}, sample={'tokens': toks, 'code': a}, failures=fails)


replay = replay_deck
