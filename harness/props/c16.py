"""C16 — reflecting and white surfaces become boundary conditions on the right surfaces."""
import random
import re

from .geomcommon import *  # noqa

ID = 'C16'
LEVEL = 'proof'
RULE = ("flat BSP decks with 0–3 surfaces flagged '*' (reflecting) or '+' (white), with exact duplicates of flagged "
        'surfaces under lower and higher numbers, flagged surfaces that bound no converted cell, surface cards in '
        'non-ascending order, converted with and without --skip-deduplication. Checked on the written file: one '
        'BOUNDARY_CONDITION entry of the right kind per flagged surface that bounds a converted cell, none for unflagged '
        'ones, each entry designating a SURF of the file whose definition equals that of the flagged surface (reference '
        'definitions come from the --skip-deduplication output of the same deck), declared count right; a flag on a '
        'macrobody must be rejected; moved: a box with flagged faces and its LIKE n BUT TRCL copy — one entry per flagged '
        'face and place (own, image). Non-trivial = deck has a flagged surface.')
NOT_PROVED = ['that the emitted boundary entry designates the locus of the flagged MCNP surface: compared on each written file with the definition of the flagged surface in the --skip-deduplication output, no theorem']
ASSUMPTIONS = ['flagged surfaces are single TRIPOLI-4 surfaces (planes, spheres, cylinders, quadrics, two-sheet cones)']


def plan(tier):
    q = tier == 'quick'
    return [('bc', 300 if q else 5000, {}), ('macro', 40 if q else 400, {}), ('moved', 60 if q else 1200, {})]


def search_plan(tier, disagreements):
    return [('bc', 1200 if tier == 'quick' else 6000, {})]


def parse_bc(t4):
    m = re.search(r'BOUNDARY_CONDITION\n(\d+)\n(.*?)END_BOUNDARY_CONDITION', t4, re.S)
    if not m:
        return None, []
    ents = re.findall(r'ALL_COMPLETE (\S+) (\S+)', m.group(2))
    return int(m.group(1)), ents


def surf_defs(t4):
    out = {}
    for m in re.finditer(r'^SURF (\d+) (.*?)(?: //.*)?$', t4, re.M):
        out[int(m.group(1))] = ' '.join(m.group(2).split())
    return out


def straddle_points(t4def, rng):
    """pairs of points just on either side of the TRIPOLI-4 surface: random sampling alone cannot tell two close
    parallel planes or two concentric spheres of nearly equal radius apart"""
    w = t4def.split()
    try:
        ps = [float(x) for x in w[1:]]
    except ValueError:
        return []
    kind = w[0]
    pts = []
    dl = 2e-3
    for _ in range(6):
        u, v = rng.uniform(-3, 3), rng.uniform(-3, 3)
        if kind in ('PLANEX', 'PLANEY', 'PLANEZ') and len(ps) == 1:
            ax = 'XYZ'.index(kind[-1])
            for sg in (-1, 1):
                q = [u, v]
                q.insert(ax, ps[0] + sg * dl)
                pts.append(q)
        elif kind == 'PLANE' and len(ps) == 4:
            a, b, c, dd = ps
            n2 = a * a + b * b + c * c
            if n2 == 0:
                return []
            # a point of the plane a x + b y + c z = d, moved inside the plane, then off it
            base = [a * dd / n2, b * dd / n2, c * dd / n2]
            t1 = [b, -a, 0.0] if abs(a) + abs(b) > 0 else [1.0, 0.0, 0.0]
            t2 = [a * c, b * c, -(a * a + b * b)] if abs(a) + abs(b) > 0 else [0.0, 1.0, 0.0]
            nn = n2 ** 0.5
            for sg in (-1, 1):
                pts.append([base[i] + 0.3 * u * t1[i] + 0.3 * v * t2[i] + sg * dl * (a, b, c)[i] / nn for i in range(3)])
        elif kind == 'SPHERE' and len(ps) == 4:
            import math
            th, ph = rng.uniform(0, math.pi), rng.uniform(0, 2 * math.pi)
            dirv = [math.sin(th) * math.cos(ph), math.sin(th) * math.sin(ph), math.cos(th)]
            for sg in (-1, 1):
                pts.append([ps[i] + (ps[3] + sg * dl) * dirv[i] for i in range(3)])
        elif kind in ('CYLX', 'CYLY', 'CYLZ') and len(ps) == 3:
            import math
            ax = 'XYZ'.index(kind[-1])
            ang = rng.uniform(0, 2 * math.pi)
            for sg in (-1, 1):
                q = [ps[0] + (ps[2] + sg * dl) * math.cos(ang), ps[1] + (ps[2] + sg * dl) * math.sin(ang)]
                q.insert(ax, u)
                pts.append(q)
    return pts


def mcnp_straddle(surf, rng, dl=0.01):
    """pairs of points just either side of an axis plane of the deck (moved with its transformation): two parallel
    planes are told apart whichever of them lies outside the box of the ordinary sample"""
    if surf.mn not in ('px', 'py', 'pz') or len(surf.ps) != 1:
        return []
    ax = 'xyz'.index(surf.mn[1])
    pts = []
    for _ in range(6):
        u, v = rng.uniform(-3, 3), rng.uniform(-3, 3)
        for sg in (-1, 1):
            q = [u, v]
            q.insert(ax, surf.ps[0] + sg * dl)
            pts.append(list(surf.tr.to_main(q)) if surf.tr is not None else q)
    return pts


def locus_equal(ctx, surf, t4def, rng):
    """does the TRIPOLI-4 surface `t4def` have the zero set of MCNP surface `surf`? decided by the Lean
    spec on 200 points: the senses agree everywhere or are opposite everywhere"""
    ps = list(surf.ps)
    mn = surf.mn
    # a one-sheet cone card designates the cone (both sheets have the same quadric)
    if mn in ('k/x', 'k/y', 'k/z') and len(ps) == 5:
        ps = ps[:4]
    if mn in ('kx', 'ky', 'kz') and len(ps) == 3:
        ps = ps[:2]
    d = D.Deck()
    d.surfs = [D.Surf(1, mn, ps, tr=surf.tr)]
    d.cells = [D.Cell(1, ('s', -1)), D.Cell(2, ('s', 1))]
    t4 = 'SURF 1 %s\nVOLU 1 EQUA MINUS 1 1 ENDV\nVOLU 2 EQUA PLUS 1 1 ENDV\n' % t4def
    agree, skip, mm = monitor(ctx, d, t4, G.sample_points(rng, 200) + straddle_points(t4def, rng) + mcnp_straddle(surf, rng),
                             with_comp=False)
    if agree is None:
        return False
    resp_mismatch = len(mm) > 0
    return (not resp_mismatch) or agree == 0


def moved_case(seed, rng, ctx):
    """a box bounded by flagged planes and a copy of it moved by LIKE n BUT TRCL (both converted): every flagged
    surface bounds a converted cell twice, at its own place and at the place of its image; each place needs its
    entry, of the right kind, designating a written surface with that locus"""
    d = D.Deck()
    lo = [rng.choice([-1.0, -0.5, 0.0]) for _ in range(3)]
    hi = [lo[i] + rng.choice([1.0, 1.5, 2.0]) for i in range(3)]
    names = ['px', 'py', 'pz']
    sid = 0
    planes = []
    for i in range(3):
        for v in (lo[i], hi[i]):
            sid += 1
            planes.append(D.Surf(sid, names[i], [v]))
    flagged = rng.sample(planes, rng.randint(1, 3))
    for s_ in flagged:
        s_.bc = rng.choice(['*', '*', '+'])
    d.surfs = planes
    box = ('i', ('i', ('i', ('s', 1), ('s', -2)), ('i', ('s', 3), ('s', -4))), ('i', ('s', 5), ('s', -6)))
    k = rng.randrange(3)
    # every face moves (a face mapped onto itself would be merged with its original by de-duplication: finding F2a)
    shift = [rng.choice([0.25, -0.75, 1.25, 2.75]) for _ in range(3)]
    shift[k] = (hi[k] - lo[k]) + rng.choice([0.5, 1.0, 3.0])
    if rng.random() < 0.5:
        shift[k] = -shift[k]
    m = D.Motion(shift, list(D.IDENT))
    if rng.random() < 0.3:
        m, _cls = G.random_motion(rng, 'perm')
        # off the half-integer grid of the faces: no moved face may coincide with an original one (finding F2a)
        m = D.Motion([6.3125 + rng.choice(G.HALF), 7.1875, -6.5625], m.b)
    c1 = D.Cell(10, box, mat=1, rho='-1.0')
    c2 = D.Cell(11, box, mat=2, rho='-2.0', trcl=m)
    how = rng.choice(['inline', 'num'])
    if how == 'num':
        d.trs[5] = (m, {'star': False, 'cls': 'perm'})
        c2.hints['raw'] = '11 like 10 but trcl=5 mat=2 rho=-2.0'
    else:
        c2.hints['raw'] = '11 like 10 but mat=2 rho=-2.0 trcl=(%s)' % D.inline_tr(m)
    c3 = D.Cell(12, ('i', ('cc', 10), ('cc', 11)), imp=0)
    d.cells = [c1, c2, c3]
    d.mats = {1: [('13027', '1.0')], 2: [('26056', '1.0')]}
    text = D.render_deck(d, D.Layout(rng))
    args = [] if rng.random() < 0.6 else ['--skip-deduplication']
    key = h((text, tuple(args)))
    res = impl.convert(text, args)
    replay = {'deck': text, 'args': args}
    if not res.ok:
        if is_degenerate(res):
            return None
        return dict(hashes=[key], nontrivial_hashes=[key], dist={'moved:exception': 1}, sample=None,
                    failures=[fail('violation', 'valid deck rejected: %s: %s' % (res.exc_type, (res.exc_msg or '')[:200]),
                                   {'stream': 'moved', 'class': 'exception', 'error': res.exc_type}, replay)])
    defs = surf_defs(res.t4)
    count, ents = parse_bc(res.t4)
    kinds_ = {'*': 'REFLECTION', '+': 'COSINUS'}
    fails = []
    if count is not None and count != len(ents):
        fails.append(fail('violation', 'BOUNDARY_CONDITION declares %d entries, has %d' % (count, len(ents)),
                          {'stream': 'moved', 'class': 'count'}, replay))
    present = [(kd, int(sid_)) for kd, sid_ in ents if sid_.isdigit() and int(sid_) in defs]
    for kd, sid_ in ents:
        if not sid_.isdigit() or int(sid_) not in defs:
            fails.append(fail('violation', 'boundary condition %s designates surface %s, which is not in the written geometry'
                              % (kd, sid_), {'stream': 'moved', 'class': 'designates-absent'}, replay))
    taken = set()
    for s_ in flagged:
        for where, surf in (('own place', D.Surf(s_.id, s_.mn, list(s_.ps))), ('moved copy', D.Surf(s_.id, s_.mn, list(s_.ps), tr=m))):
            hit = None
            for n_, (kd, j) in enumerate(present):
                if n_ in taken or kd != kinds_[s_.bc]:
                    continue
                if locus_equal(ctx, surf, defs[j], rng):
                    hit = n_
                    break
            if hit is None:
                fails.append(fail('violation', 'flagged surface %s (%s) bounds a converted cell at its %s but no %s entry designates a surface with that locus (entries: %r)'
                                  % (D.render_surf(s_), where, where, kinds_[s_.bc], ents), {'stream': 'moved', 'class': 'missing-entry'}, replay))
            else:
                taken.add(hit)
    for n_, (kd, j) in enumerate(present):
        if n_ not in taken:
            fails.append(fail('violation', 'boundary condition %s on surface %d (%s) corresponds to no flagged surface' % (kd, j, defs[j]),
                              {'stream': 'moved', 'class': 'spurious-entry'}, replay))
    return dict(hashes=[key], nontrivial_hashes=[key], dist={'moved:flagged': len(flagged), 'moved:' + how: 1},
                sample={'deck': text[:500], 'entries': ents}, failures=fails[:5])


def run_case(stream, seed, ctx, params):
    rng = random.Random(seed)
    if stream == 'moved':
        return moved_case(seed, rng, ctx)
    if stream == 'macro':
        d = G.build_flat_deck(rng, macro_p=1.0, nsurf=rng.randint(1, 3), ncells=2)
        s = rng.choice(d.surfs)
        s.bc = rng.choice(['*', '+'])
        text = D.render_deck(d, D.Layout(rng))
        res = impl.convert(text, [])
        fails = []
        if res.ok:
            single = G.nfacets(s.mn, s.ps) == 1
            fails.append(fail('violation', 'a %s flag on macrobody %d (%s) was accepted' % (s.bc, s.id, s.mn),
                              {'stream': 'macro', 'class': 'macro-flag-accepted-single-facet' if single else 'macro-flag-accepted'},
                              {'deck': text, 'args': []}))
        return dict(hashes=[h(text)], nontrivial_hashes=[h(text)], dist={'macro:' + s.mn: 1},
                    sample={'deck': text[-300:]}, failures=fails)
    kinds = ['px', 'py', 'pz', 'p', 'so', 's', 'sx', 'c/x', 'c/z', 'cz', 'k/z', 'kx', 'sq', 'gq', 'k/z1', 'kx1', 'ky1', 'k/x1']
    d = G.build_flat_deck(rng, macro_p=0.0, nsurf=rng.randint(2, 5), kinds=kinds, imp0_p=0.2)
    flagged = rng.sample(d.surfs, rng.randint(0, min(3, len(d.surfs))))
    for s in flagged:
        s.bc = rng.choice(['*', '*', '+'])
    # duplicates: same card under another number, referenced by re-spelling some references
    dup_of = {}
    nid = max(s.id for s in d.surfs)
    for s in list(d.surfs):
        if rng.random() < 0.4:
            nid += rng.choice([1, 3])
            copy = D.Surf(nid, s.mn, list(s.ps))
            if rng.random() < 0.3:
                copy.bc = rng.choice(['*', '+'])
            d.surfs.append(copy)
            dup_of[nid] = s.id
            # use the duplicate in half of the references of one cell
            c = rng.choice(d.cells)
            c.expr = _respell(c.expr, s.id, nid, rng)
    # an unflagged card whose number is that of a flagged one plus a multiple of 1000 (numbers of that form are also
    # what the converter reads as "surface s as seen from cell c"): it has a card of its own and no flag
    fl = [s_ for s_ in d.surfs if s_.bc]
    plain = [s_ for s_ in d.surfs if not s_.bc and s_.id not in dup_of and s_.id not in dup_of.values()]
    if fl and plain and rng.random() < 0.35:
        u_, f_ = rng.choice(plain), rng.choice(fl)
        new_id = 1000 * rng.choice([1, 2, 5]) + f_.id
        if all(x.id != new_id for x in d.surfs):
            mp = {x.id: x.id for x in d.surfs}
            mp[u_.id] = new_id
            for c in d.cells:
                c.expr = D.expr_map_surfs(c.expr, mp)
            u_.id = new_id
            nid = max(nid, new_id)
    if rng.random() < 0.5:
        # lower-numbered duplicate of a flagged surface: renumber by swapping card numbers
        rng.shuffle(d.surfs)
    if rng.random() < 0.3:
        # a flagged surface that bounds nothing
        nid += 1
        d.surfs.append(D.Surf(nid, 'px', [rng.choice(G.HALF) + 0.125], bc=rng.choice(['*', '+'])))
    text = D.render_deck(d, D.Layout(rng))
    key = h(text)
    ref = impl.convert(text, ['--skip-deduplication'])
    args = [] if rng.random() < 0.7 else ['--skip-deduplication']
    res, cap = C.convert_capture(text, args)
    replay = {'deck': text, 'args': args}
    fails = []
    nflag = sum(1 for s in d.surfs if s.bc)
    dist = {'bc:flagged-%d' % min(nflag, 3): 1, 'bc:dups': len(dup_of), 'bc:dedup' if not args else 'bc:skip-dedup': 1}
    if not res.ok or not ref.ok:
        r = res if not res.ok else ref
        if is_degenerate(r):
            return None
        cls = 'exception'
        return dict(hashes=[key], nontrivial_hashes=[key] if nflag else [], dist=dist, sample=None,
                    failures=[fail('violation', 'valid deck rejected: %s: %s' % (r.exc_type, (r.exc_msg or '')[:200]),
                                   {'stream': 'bc', 'class': cls, 'error': r.exc_type}, replay)])
    if cap.bc_in is not None:
        # model of recuperateBoundaryCondition / conversionBoundCond vs the written entries
        mresp = ctx['drv'].ask('bcmodel ' + ' '.join('%d:%s:%d' % (i, lean.hx(f), p) for i, f, p in cap.bc_in))
        want = 'ok ' + ' '.join('%s:%s' % (k, sid) for k, sid in parse_bc(res.t4)[1])
        # … and the text of the block, line by line (the blank line before it included)
        tl = res.t4.split('\n')
        blk = []
        if 'BOUNDARY_CONDITION' in tl:
            i0 = tl.index('BOUNDARY_CONDITION')
            blk = tl[i0 - 1:tl.index('END_BOUNDARY_CONDITION') + 1]
        want += ' | ' + ' '.join(lean.hx(' '.join(l.split())) for l in blk)     # free-format: blank space is immaterial
        if ' | ' in mresp:
            head_, _, tail_ = mresp.partition(' | ')
            mresp = head_ + ' | ' + ' '.join(lean.hx(' '.join(lean.unhx(t).split())) for t in tail_.split())
        if mresp.strip() != want.strip():
            fails.append(fail('disagreement', 'boundary-condition entries: code %s / model %s' % (want[:200], mresp[:200]),
                              {'stream': 'bc', 'stage': 'bcmodel'}, replay))
    refdefs = surf_defs(ref.t4)          # MCNP number ↦ definition, for surfaces that bound a converted cell
    defs = surf_defs(res.t4)
    count, ents = parse_bc(res.t4)
    kinds_ = {'*': 'REFLECTION', '+': 'COSINUS'}
    expect = {s.id: kinds_[s.bc] for s in d.surfs if s.bc and s.id in refdefs}
    if count is not None and count != len(ents):
        fails.append(fail('violation', 'BOUNDARY_CONDITION declares %d entries, has %d' % (count, len(ents)),
                          {'stream': 'bc', 'class': 'count'}, replay))
    used = set()
    for kind, sid in ents:
        if not sid.isdigit() or int(sid) not in defs:
            cls = 'designates-absent'
            # is it a flagged surface that bounds nothing, or one merged away by de-duplication?
            orig = int(sid) if sid.isdigit() else None
            if orig is not None and orig not in refdefs:
                cls = 'flagged-unused-surface'
            elif orig is not None:
                # known behaviour: de-duplication keeps the lowest number of a group of identical surfaces
                me = next((x for x in d.surfs if x.id == orig), None)
                lower = [x.id for x in d.surfs if me is not None and x.id < orig and x.mn == me.mn and x.ps == me.ps]
                higher_present = [x.id for x in d.surfs if me is not None and x.id > orig and x.mn == me.mn
                                  and x.ps == me.ps and x.id in defs]
                if lower:
                    cls = 'flagged-surface-merged-away'
                elif higher_present:
                    cls = 'flagged-surface-dropped'       # survived only under a higher number: not the known behaviour
                else:
                    cls = 'flagged-unused-surface'        # no surviving volume uses it (volumes simplified away)
            fails.append(fail('violation', 'boundary condition %s designates surface %s, which is not in the written geometry'
                              % (kind, sid), {'stream': 'bc', 'class': cls}, replay))
            continue
        j = int(sid)
        match = [k for k, kd in expect.items() if kd == kind and refdefs[k] == defs[j] and k not in used]
        if not match:
            cls = 'spurious-entry'
            flagged_ids = [s.id for s in d.surfs if s.bc]
            if j in flagged_ids and j not in refdefs:
                # the flagged card bounds nothing itself; de-duplication made it the representative of an
                # identical unflagged surface that does
                cls = 'flag-moved-by-dedup'
            fails.append(fail('violation', 'boundary condition %s on surface %d (%s) corresponds to no flagged surface that bounds a cell'
                              % (kind, j, defs[j]), {'stream': 'bc', 'class': cls}, replay))
        else:
            k0 = match[0] if j not in match else j
            used.add(k0)
            msurf = next(x for x in d.surfs if x.id == k0)
            if not locus_equal(ctx, msurf, defs[j], rng):
                fails.append(fail('violation', 'boundary condition %s designates surface %d (%s), which does not have the locus of the flagged surface %s'
                                  % (kind, j, defs[j], D.render_surf(msurf)), {'stream': 'bc', 'class': 'wrong-locus'}, replay))
    # flagged surfaces with identical definitions may legitimately share one entry after de-duplication
    absent = set(int(sid) for kind, sid in ents if sid.isdigit() and int(sid) not in defs)
    for k, kd in expect.items():
        if k in used or k in absent:
            continue
        if any(refdefs[k] == refdefs[u] and expect[u] == kd for u in used):
            continue
        fails.append(fail('violation', 'flagged surface %d (%s) bounds a converted cell but has no %s entry' % (k, refdefs[k], kd),
                          {'stream': 'bc', 'class': 'missing-entry'}, replay))
    return dict(hashes=[key], nontrivial_hashes=[key] if nflag else [], dist=dist,
                sample={'surfaces': [D.render_surf(s) for s in d.surfs if s.bc], 'entries': ents}, failures=fails[:5])


def _respell(e, old, new, rng):
    t = e[0]
    if t == 's':
        if abs(e[1]) == old and rng.random() < 0.5:
            return ('s', new if e[1] > 0 else -new)
        return e
    if t in ('f', 'cc'):
        return e
    if t == 'c':
        return ('c', _respell(e[1], old, new, rng))
    return (t, _respell(e[1], old, new, rng), _respell(e[2], old, new, rng))


def replay(payload, ctx):
    p = payload.get('payload') or {}
    res = impl.convert(p['deck'], p.get('args') or [])
    out = {'exception': res.exc_type}
    if res.ok:
        out['bc'] = parse_bc(res.t4)
        out['surfaces'] = surf_defs(res.t4)
        okwf, rep = wf(ctx, res.t4)
        out['wellformed'] = okwf
        out['violation'] = not okwf
    return out
