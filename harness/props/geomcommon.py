"""Shared case runner for the geometry properties (C01–C09, C13): convert a generated deck with
the real converter, check structural validity and the point monitor in Lean, and the Layer-B
model correspondence."""
import itertools
import random

from .common import *  # noqa

OPTION_FLAGS = ['--skip-deduplication', '--always-inline-filling', '--always-inline-filled']
SCORES = ['0', '0.5', '1.5', '1e9']


def random_options(rng):
    args = [f for f in OPTION_FLAGS if rng.random() < 0.4]
    if rng.random() < 0.4:
        args += ['--max-inline-score', rng.choice(SCORES)]
    return args


def all_option_sets():
    out = []
    for k in range(4):
        for flags in itertools.combinations(OPTION_FLAGS, k):
            out.append(list(flags))
    return out


def deck_features(d):
    f = {}
    f['cells'] = len(d.cells)
    f['universes'] = len(set(c.u for c in d.cells))
    f['fills'] = sum(1 for c in d.cells if c.fill is not None)
    f['lattices'] = sum(1 for c in d.cells if c.lat)
    f['tiny-tilt'] = 1 if getattr(d, '_tiny_tilt', False) else 0
    f['trcl'] = sum(1 for c in d.cells if c.trcl is not None)
    f['filltr'] = sum(1 for c in d.cells if c.fill and c.fill.get('tr') is not None)
    f['surftr'] = sum(1 for s in d.surfs if s.tr is not None)
    f['macro'] = sum(1 for s in d.surfs if s.mn in G.MACRO_NFACETS or s.mn == 'arb')
    f['cc'] = sum(1 for c in d.cells if "'cc'" in repr(c.expr))
    return f


def run_deck(ctx, stream, d, args, rng, npts=120, with_comp=True, check_wf=True, check_model=False, extra_sig=None,
             lattice_opts=None, known_classes=None):
    """returns a case-result dict"""
    text = D.render_deck(d, D.Layout(rng))
    argv = list(args) + [x for lo in (lattice_opts or d.lattice_opts or []) for x in ('--lattice', lo)]
    key = h((text, tuple(argv)))
    feats = deck_features(d)
    dist = {stream + ':decks': 1}
    for k, v in feats.items():
        if v:
            dist['%s:with-%s' % (stream, k)] = 1
    fails = []
    if check_model:
        res, cap = C.convert_capture(text, argv)
    else:
        res, cap = impl.convert(text, argv), None
    sig0 = dict(extra_sig or {})
    sig0['stream'] = stream
    replay = {'deck': text, 'args': argv, 'sexp': d.sexp()}
    if not res.ok:
        if is_degenerate(res):
            return None
        cls = 'exception'
        if known_classes:
            cls = known_classes(d, res) or cls
        fails.append(fail('violation', 'valid generated deck rejected: %s: %s' % (res.exc_type, (res.exc_msg or '')[:300]),
                          dict(sig0, **{'class': cls, 'error': res.exc_type}), replay))
        return dict(hashes=[key], nontrivial_hashes=[key], dist=dict(dist, **{stream + ':exception': 1}),
                    sample=None, failures=fails)
    if check_wf:
        ok, rep = wf(ctx, res.t4)
        if not ok:
            extra = {'class': 'not-wellformed'}
            # the only defect is a BOUNDARY_CONDITION entry designating a surface that is not written (F2a/F2b seen
            # from C08): say so in the signature, nothing else is attributed to that finding
            import re as _re
            lists = dict(_re.findall(r'(\w+) := (\[[^\]]*\]|true|false)', rep))
            others = [k for k, v in lists.items() if k != 'bcUndefined' and v not in ('[]', 'false')]
            if lists.get('bcUndefined', '[]') != '[]' and not others:
                extra['bc'] = 'dangling'
            fails.append(fail('violation', 'written file is not structurally valid: ' + rep[:800],
                              dict(sig0, **extra), replay))
    pts = G.sample_points(rng, npts) + list(getattr(d, 'probe_points', None) or [])     # a deck may name points of its own
    agree, skip, mm = monitor(ctx, d, res.t4, pts, with_comp=with_comp)
    if mm:
        cls = 'point-mismatch'
        if known_classes:
            cls = known_classes(d, res) or cls
        fails.append(fail('violation', 'point ownership differs from the MCNP reference semantics: ' + ' | '.join(mm[:3]),
                          dict(sig0, **{'class': cls}), dict(replay, points=pts)))
    dist[stream + ':points-agree'] = agree or 0
    dist[stream + ':points-skipped-near-surface'] = skip or 0
    if check_model and cap is not None and not (cap.missing or cap.error):
        fails += model_corr(ctx, stream, cap, argv, replay)
    elif check_model and cap is not None:
        dist[stream + ':anchor-missing'] = 1
    nontrivial = feats['cells'] >= 2
    return dict(hashes=[key], nontrivial_hashes=[key] if nontrivial else [], dist=dist,
                sample={'deck': text[:700], 'args': argv}, failures=fails)


def model_corr(ctx, stream, cap, argv, replay):
    """Layer-B model (Lean) vs the code: pot_complement, conversion loop, post-processing"""
    drv = ctx['drv']
    fails = []
    if cap.complement_in is not None:
        resp = drv.ask('complement ' + lean.hx(C.complement_request(cap)))
        exp = 'ok ' + ' '.join('(cell %d %s)' % (k, g) for (k, _, _), g in zip(cap.complement_in, cap.complement_out))
        if resp != exp:
            fails.append(fail('disagreement', 'pot_complement: code %s / model %s' % (exp[:300], resp[:300]),
                              {'stream': stream, 'stage': 'complement'}, replay))
    for rec in cap.lattices:
        if rec['base'] is None or len(rec['trcl']) > 1:
            continue
        import struct
        resp = drv.ask('latmodel ' + lean.hx(C.lattice_request(rec)))
        if resp.startswith('ok error'):
            if rec['error'] is None:
                fails.append(fail('disagreement', 'develop_lattice(cell %d): model %s, code creates %d cells'
                                  % (rec['key'], resp, len(rec['elements'])), {'stream': stream, 'stage': 'lattice'}, replay))
            continue
        if not resp.startswith('ok') or rec['error'] is not None:
            fails.append(fail('disagreement', 'develop_lattice(cell %d): model %s / code error %r'
                              % (rec['key'], resp[:200], rec['error']), {'stream': stream, 'stage': 'lattice'}, replay))
            continue
        items = resp.split()[1:]
        unb = lambda t: [struct.unpack('<d', struct.pack('<Q', int(x)))[0] for x in t.split(',')] if t else []  # noqa
        bad = None
        if len(items) != len(rec['elements']):
            bad = 'model creates %d cells, code %d' % (len(items), len(rec['elements']))
        else:
            for it, el in zip(items, rec['elements']):
                idx, tr, fl, ftr = it.split(':')
                mt, mf = unb(tr), unb(ftr)
                if (fl == '-') != (el['fill'] is None) or (fl != '-' and int(fl) != el['fill']):
                    bad = 'element %s: fill model %s / code %r' % (idx, fl, el['fill'])
                elif any(abs(a - b) > 1e-9 * max(1.0, abs(a)) for a, b in zip(mt, el['transl'])):
                    bad = 'element %s: translation model %r / code %r' % (idx, mt, el['transl'])
                elif len(mf) != len(el['filltr']) or any(abs(a - b) > 1e-9 * max(1.0, abs(a)) for a, b in zip(mf, el['filltr'])):
                    bad = 'element %s: FILL transformation model %r / code %r' % (idx, mf, el['filltr'])
                if bad:
                    break
        if bad:
            fails.append(fail('disagreement', 'develop_lattice(cell %d): %s' % (rec['key'], bad),
                              {'stream': stream, 'stage': 'lattice'}, replay))
    if cap.inline_in is not None and cap.inline_out is not None:
        resp = drv.ask('inline ' + lean.hx(C.inline_request(cap)))
        exp = 'ok ' + ' '.join('(cell %d %s)' % c for c in cap.inline_out)
        if resp != exp:
            fails.append(fail('disagreement', 'inline_cells (max score %r): code %s / model %s'
                              % (cap.inline_in[0], exp[:300], resp[:300]), {'stream': stream, 'stage': 'inline'}, replay))
    if cap.compile_in is not None and cap.vols_before_post is not None:
        resp = drv.ask('compile ' + lean.hx(C.compile_request(cap)))
        mv = C.vols_from_response(C.parse_sexp(resp))
        if C.canon_vols(mv) != C.canon_vols(cap.vols_before_post):
            fails.append(fail('disagreement', 'conversion loop: canonical volume terms differ (model %s)' % resp[:300],
                              {'stream': stream, 'stage': 'compile'}, replay))
        # hypotheses of C01.postProcess_preserves / C08.closed_after_post, checked on the code's own dictionary:
        # no operand of a volume is missing before the post-processing (keys are unique: it is a Python dict)
        dangling = [(k, r) for k, v in cap.vols_before_post.items() if v[2] is not None for r in v[2][1]
                    if r not in cap.vols_before_post]
        if dangling:
            fails.append(fail('disagreement', 'the volume dictionary handed to the post-processing has dangling '
                              'references %r: hypothesis Closed of postProcess_preserves not met' % (dangling[:5],),
                              {'stream': stream, 'stage': 'closed-before-post'}, replay))
        if cap.vols_after_post is not None:
            resp = drv.ask('post ' + lean.hx(C.post_request(cap, '--skip-deduplication' not in argv)))
            mv = C.vols_from_response(C.parse_sexp(resp))
            if C.canon_vols(mv) != C.canon_vols(cap.vols_after_post):
                fails.append(fail('disagreement', 'post-processing (dedup/empty/unused): canonical volume terms differ',
                                  {'stream': stream, 'stage': 'post'}, replay))
    return fails


def replay_deck(payload, ctx):
    p = payload.get('payload') or {}
    out = {}
    if 'deck' in p:
        res = impl.convert(p['deck'], p.get('args') or [])
        out['exception'] = res.exc_type
        out['message'] = res.exc_msg
        if res.ok:
            okwf, rep = wf(ctx, res.t4)
            out['wellformed'] = okwf
            if not okwf:
                out['wf_report'] = rep[:1500]
            if 'points' in p and 'sexp' in p:
                drv = ctx['drv']
                resp = drv.ask('monitor %s %s 1 1e-06 %s' % (lean.hx(p['sexp']), lean.hx(res.t4), pts_arg(p['points'])))
                parts = resp.split()
                out['monitor'] = parts[:4]
                out['mismatches'] = [lean.unhx(x) for x in parts[4:]]
                out['violation'] = 'mismatch=0' not in resp or not okwf
            else:
                out['violation'] = not okwf
        else:
            out['violation'] = True
    return out
