"""C02 — elementary surfaces keep their locus and their sense."""
import random

from .geomcommon import *  # noqa
from . import probes as P

ID = 'C02'
LEVEL = 'proof'
RULE = ("probe decks 'cell 1 = -s, cell 2 = +s' for one surface card of every elementary mnemonic and arity (P with 4 "
        'and 9 entries incl. planes through the origin in every branch of the orientation cascade, PX…, SO/S/SX…, '
        'C/X…, CX…, K/X… and KX… with and without sheet selector, SQ incl. linear terms with off-origin reference '
        'point, GQ, TX/TY/TZ circular and elliptic, X/Y/Z with one and two pairs: plane, cylinder, cone), parameters '
        'from a grid of small integers and halves; 300 sample points per deck; Lean spec (MCNP manual implicit '
        'functions) vs owners of the written file, plus structural validity. Stream mixed: the same surfaces inside '
        'BSP decks. Non-trivial = every probe deck; distinct = distinct (mnemonic, parameters).')
NOT_PROVED = ['tori (circular and elliptic, six entries) are proved with the spec written with a square root (Transc.sqrt); that the '
              'fourth-degree polynomial form of the torus has the same zero set is not stated',
              'the floating-point tolerances of planeParamsFromPoints (the three-point theorem is over exact arithmetic)']
ASSUMPTIONS = ['parameters admissible for their mnemonic (radii > 0, non-collinear points …)']


def plan(tier):
    q = tier == 'quick'
    return [('probe', 360 if q else 7000, {}), ('mixed', 80 if q else 1500, {}),
            ('surfmodel', 700 if q else 20000, {}), ('oblique', 150 if q else 3000, {})]


def search_plan(tier, disagreements):
    return [('probe', 2000 if tier == 'quick' else 12000, {'npts': 600})]


def _known(d, res):
    for s in d.surfs:
        if s.mn == 'sq' and P.sq_positive_centre(s.ps):
            return 'sq-positive-centre'
    return None


def code_card(mn, ps, tr=None):
    """the real conversion of one card (optionally carrying transformation `tr` = 12 numbers):
    [(T4 keyword, side, params, transform)]"""
    from t4_geom_convert.Kernel.FileHandlers.Parser.ParseMCNPSurface import to_surfaces_mcnp
    from t4_geom_convert.Kernel.Surface.ConversionSurfaceMCNPToT4 import convert_mcnp_surface
    if tr is None:
        val = to_surfaces_mcnp(1, ('', None, mn, [float(x) for x in ps]), {})
    else:
        val = to_surfaces_mcnp(1, ('', '7', mn, [float(x) for x in ps]), {7: [float(x) for x in tr]})
    coll = convert_mcnp_surface(1, val)
    return [(s.type_surface.name, int(side), [float(x) for x in s.param_surface], s.transform) for s, side in coll]


def compare_card(ctx, cmd, mn, ps, stream, extra_dist=None, tr=None):
    """one card through the real conversion and through the Lean model (driver command `cmd`)"""
    import struct
    key = h((mn, tuple(ps), tuple(tr or ())))
    try:
        code = code_card(mn, ps, tr)
    except Exception as e:  # noqa
        code = ('error', type(e).__name__)
    resp = ctx['drv'].ask('%s %s %s' % (cmd, mn, ' '.join(repr(float(x)) for x in list(tr or []) + list(ps))))
    fails = []
    sig = {'stream': stream, 'mnemonic': mn, 'arity': len(ps)}
    replay = {'mnemonic': mn, 'params': ps, 'cmd': cmd, 'tr': tr}

    def dis(msg):
        fails.append(fail('disagreement', 'card %s %r: %s' % (mn, ps, msg), sig, replay))
    rejected = bool(code) and code[0] == 'error'
    if not resp.startswith('ok'):
        dis('driver: ' + resp)
    elif resp == 'ok none':
        if not rejected:
            dis('model rejects, code gives %r' % (code,))
    elif rejected:
        dis('code raises %s, model gives %s' % (code[1], resp))
    else:
        items = resp.split()[1:]
        if len(items) != len(code):
            dis('code emits %d surfaces, model %d' % (len(code), len(items)))
        else:
            for it, (kname, side, cps, tr) in zip(items, code):
                k, sd, bits = it.split(':')
                mps = [struct.unpack('<d', struct.pack('<Q', int(b)))[0] for b in bits.split(',')] if bits else []
                if k != kname or int(sd) != side or len(mps) != len(cps) or tr is not None:
                    dis('code %s side %d %r tr=%r / model %s side %s %r' % (kname, side, cps, tr is not None, k, sd, mps))
                    break
                if any(abs(a - b) > 1e-9 * max(1.0, abs(a), abs(b)) for a, b in zip(mps, cps)):
                    dis('parameters differ: code %r / model %r' % (cps, mps))
                    break
    dist = {'%s:%s/%d' % (stream, mn, len(ps)): 1, '%s:%s' % (stream, 'rejected' if rejected else 'converted'): 1}
    dist.update(extra_dist or {})
    return dict(hashes=[key], nontrivial_hashes=[key], dist=dist,
                sample={'card': [mn, ps], 'code': repr(code)[:300]}, failures=fails)


def surfmodel_case(seed, rng, ctx):
    """Lean model of normalize_surface + mcnp2cad + conversion_surface_params vs the code, one card"""
    kind = P.ELEMENTARY[seed % len(P.ELEMENTARY)]
    m = rng.random()
    if kind == 'p3' and m < 0.5:
        mn, ps = P.p3_through_origin(rng)
    elif kind == 'sq':
        mn, ps = P.sq_card(rng)
    else:
        mn, ps = G.elementary(rng, [kind])
    if rng.random() < 0.3:           # off-grid parameters
        ps = [x + rng.choice([0.0, 0.125, -0.3, 1e-3]) if i != len(ps) - 1 or kind[-1] != '1' else x for i, x in enumerate(ps)]
    if rng.random() < 0.06:          # wrong parameter count: both must reject
        ps = ps[:-1] if rng.random() < 0.5 and len(ps) > 1 else ps + [1.0]
    return compare_card(ctx, 'surfmodel', mn, ps, 'surfmodel')


def run_case(stream, seed, ctx, params):
    rng = random.Random(seed)
    if stream == 'surfmodel':
        return surfmodel_case(seed, rng, ctx)
    if stream == 'oblique':
        # the general TRIPOLI-4 types (PLANE, CYL, CONE, tilted TORUS) are only emitted for a surface whose frame is
        # oblique: one card on a TR card with a generic or Pythagorean rotation (axis components of mixed signs)
        kind = rng.choice(['cx', 'cy', 'cz', 'c/x', 'c/y', 'c/z', 'kx', 'ky', 'kz', 'k/x', 'k/y', 'k/z', 'k/z1', 'kx1',
                           'px', 'py', 'pz', 'p', 'tx', 'ty', 'tz'])
        mn, ps = G.elementary(rng, [kind])
        m, cls = G.random_motion(rng, rng.choice(['generic', 'generic', 'pyth']))
        d = P.probe_deck(mn, ps, tr=m, trnum=7)
        d.trs[7] = (m, {'star': False, 'cls': cls})
        return run_deck(ctx, stream, d, [], rng, npts=250, extra_sig={'mnemonic': mn, 'rot': cls})
    if stream == 'mixed' and rng.random() < 0.2:
        # two cards of one mnemonic whose parameters differ in one place only, by a pair of values that are easily
        # confused (-1 / -2 have the same hash in CPython, 0.0 / -0.0 are equal, 1 / 1.0 …): each card its own surface
        kind = rng.choice(['px', 'py', 'pz', 'p', 's', 'sx', 'sz', 'c/x', 'c/z', 'cz', 'so', 'k/z', 'gq', 'sq'])
        mn, ps = (P.sq_card(rng) if kind == 'sq' else G.elementary(rng, [kind]))
        ps = [float(x) for x in ps]
        a, b = rng.choice([(-1.0, -2.0), (-2.0, -1.0), (-1.0, -2.0), (-2.0, -1.0), (1.0, 2.0), (-1.0, 1.0), (0.5, 1.5)])
        j = rng.randrange(len(ps))
        if mn in ('so', 'cz', 's', 'sx', 'sz', 'c/x', 'c/z') and j == len(ps) - 1:
            a, b = abs(a), abs(b)            # a radius
            if a == b:
                a, b = 1.0, 2.0
        if mn == 'k/z' and j == 3:
            a, b = 1.0, 2.0                  # t squared
        ps1, ps2 = list(ps), list(ps)
        ps1[j], ps2[j] = a, b
        d = D.Deck()
        i1, i2 = rng.sample(range(1, 30), 2)
        d.surfs = [D.Surf(i1, mn, ps1), D.Surf(i2, mn, ps2)]
        cid = iter(rng.sample(range(1, 40), 4))
        d.cells = [D.Cell(next(cid), ('i', ('s', -i1), ('s', -i2)), mat=1, rho='-1.0'),
                   D.Cell(next(cid), ('i', ('s', -i1), ('s', i2)), mat=2, rho='-2.0'),
                   D.Cell(next(cid), ('i', ('s', i1), ('s', -i2)), mat=1, rho='-3.0'),
                   D.Cell(next(cid), ('i', ('s', i1), ('s', i2)), mat=0, imp=rng.choice([0, 1]))]
        d.mats = {1: [('13027', '1.0')], 2: [('26056', '-0.9'), ('6012', '-0.1')]}
        return run_deck(ctx, stream, d, ['--skip-deduplication'] if rng.random() < 0.3 else [], rng, npts=200,
                        known_classes=_known)
    if stream == 'mixed':
        # a third of the decks put surfaces on TR cards: the general TRIPOLI-4 types (PLANE, CYL, CONE, tilted tori) are
        # only emitted for surfaces whose frame is oblique
        d = G.build_flat_deck(rng, macro_p=0.0, tr_p=0.5 if rng.random() < 0.35 else 0.0, nsurf=rng.randint(2, 5))
        return run_deck(ctx, stream, d, [], rng, npts=200)
    kind = P.ELEMENTARY[seed % len(P.ELEMENTARY)]
    if kind == 'p3' and rng.random() < 0.5:
        mn, ps = P.p3_through_origin(rng)
    elif kind == 'sq':
        mn, ps = P.sq_card(rng)
    else:
        mn, ps = G.elementary(rng, [kind])
    d = P.probe_deck(mn, ps)
    r = run_deck(ctx, stream, d, [], rng, npts=params.get('npts', 300), known_classes=_known,
                 extra_sig={'mnemonic': mn, 'arity': len(ps)})
    if r is not None:
        r['dist']['probe:%s/%d' % (mn, len(ps))] = 1
    return r


def replay(payload, ctx):
    p = payload.get('payload') or {}
    if 'mnemonic' in p:
        try:
            code = repr(code_card(p['mnemonic'], p['params'], p.get('tr')))
        except Exception as e:  # noqa
            code = 'raises %s: %s' % (type(e).__name__, e)
        return {'code': code,
                'model': ctx['drv'].ask('%s %s %s' % (p.get('cmd', 'surfmodel'), p['mnemonic'], ' '.join(repr(float(x)) for x in list(p.get('tr') or []) + list(p['params']))))}
    return replay_deck(payload, ctx)
