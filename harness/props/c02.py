"""C02 — elementary surfaces keep their locus and their sense."""
import random

from .geomcommon import *  # noqa
from . import probes as P

ID = 'C02'
LEVEL = 'proof'
RULE = ("probe decks 'cell 1 = -s, cell 2 = +s' for one surface card of every elementary mnemonic and arity (P with 4 "
        'and 9 entries incl. planes through the origin in every branch of the orientation cascade, PX…, SO/S/SX…, '
        'C/X…, CX…, K/X… and KX… with and without sheet selector, SQ incl. linear terms with off-origin reference '
        'point, GQ, TX/TY/TZ circular and elliptic, X/Y/Z with one and two pairs: plane, cylinder, cone), parameters '
        'from a grid of small integers and halves; 300 sample points per deck; Lean spec (MCNP manual implicit '
        'functions) vs owners of the written file, plus structural validity. Stream mixed: the same surfaces inside '
        'BSP decks. Non-trivial = every probe deck; distinct = distinct (mnemonic, parameters).')
NOT_PROVED = []
ASSUMPTIONS = ['parameters admissible for their mnemonic (radii > 0, non-collinear points …)']


def plan(tier):
    q = tier == 'quick'
    return [('probe', 360 if q else 7000, {}), ('mixed', 80 if q else 1500, {})]


def search_plan(tier, disagreements):
    return [('probe', 2000 if tier == 'quick' else 12000, {'npts': 600})]


def _known(d, res):
    for s in d.surfs:
        if s.mn == 'sq' and P.sq_positive_centre(s.ps):
            return 'sq-positive-centre'
    return None


def run_case(stream, seed, ctx, params):
    rng = random.Random(seed)
    if stream == 'mixed':
        d = G.build_flat_deck(rng, macro_p=0.0, tr_p=0.0, nsurf=rng.randint(2, 5))
        return run_deck(ctx, stream, d, [], rng, npts=200)
    kind = P.ELEMENTARY[seed % len(P.ELEMENTARY)]
    if kind == 'p3' and rng.random() < 0.5:
        mn, ps = P.p3_through_origin(rng)
    elif kind == 'sq':
        mn, ps = P.sq_card(rng)
    else:
        mn, ps = G.elementary(rng, [kind])
    d = P.probe_deck(mn, ps)
    r = run_deck(ctx, stream, d, [], rng, npts=params.get('npts', 300), known_classes=_known,
                 extra_sig={'mnemonic': mn, 'arity': len(ps)})
    if r is not None:
        r['dist']['probe:%s/%d' % (mn, len(ps))] = 1
    return r


replay = replay_deck
