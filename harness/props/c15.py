"""C15 — LIKE n BUT equals the explicit cell card it abbreviates."""
import random
import re

from .geomcommon import *  # noqa
from .. import gen_univ as U
from .. import gen_like as L

ID = 'C15'
LEVEL = 'proof'
RULE = ('decks (flat and with universes) extended by 1–3 LIKE n BUT cells overriding random subsets of {mat, rho, u, '
        'fill, trcl, imp} with random values, incl. LIKE-of-LIKE chains where several levels override the same '
        'parameter, keyword case variants; each deck is converted twice — as written and with every LIKE card expanded '
        'by the generator — and the two outputs must be identical except for the header; the Lean point monitor '
        'also checks the LIKE deck against the expanded abstract deck. Non-trivial = every deck (it has a LIKE card).')
NOT_PROVED = ['the shorthands nI / xM / nJ / LOG inside a FILL array are outside the keyword model (plain numbers and nR are '
              'in it): covered by the LIKE decks of the `like` stream only',
              'the commutation of token reading with apply_but assumes that the options of cell n do not end inside an '
              'array FILL whose ranges have no element (the code then drops every later token)']
ASSUMPTIONS = []


def plan(tier):
    q = tier == 'quick'
    return [('like', 300 if q else 5000, {}), ('kwmodel', 800 if q else 20000, {})]


def search_plan(tier, disagreements):
    return [('like', 1200 if tier == 'quick' else 6000, {})]


def strip_header(t4):
    return '\n'.join(l for l in t4.splitlines() if not l.startswith('//'))


TRTABLE = {k: [float(10 * k + i) for i in range(12)] for k in range(1, 6)}


def code_keywords(tokens):
    """parse_keywords of the real ParseMCNPCell on option tokens; canonical dict or ('error', class)"""
    from t4_geom_convert.Kernel.FileHandlers.Parser.ParseMCNPCell import ParseMCNPCell
    obj = ParseMCNPCell.__new__(ParseMCNPCell)
    obj.transforms = TRTABLE
    kws = obj.parse_keywords(list(reversed(tokens)))
    # the per-particle map is internal bookkeeping of parse_keywords: when a version of the code does not expose it,
    # the documented result (the cell importance = maximum over the particle types) is compared instead
    if 'imp_by_particle' in kws:
        imp = dict(kws['imp_by_particle'] or {})
    else:
        imp = ('max', kws['importance'])
    return {'imp': imp, 'u': kws['u'], 'mat': kws['material'], 'rho': kws['density'],
            'lat': kws['lattice'], 'f_univs': kws['f_univs'], 'f_params': kws['f_params'], 'trcl': kws['trcl'],
            'f_bounds': None if kws['f_bounds'] is None else [tuple(b) for b in kws['f_bounds'].bounds]}


def expected_from_model(resp):
    """what the code must return if it agrees with the model's record (the numeric post-processing of the
    values — to_float, int(float()), the TR table lookup, the identity matrix appended to 3 numbers — is
    applied here, it is not part of the keyword logic)"""
    from MIP.mip.utils import to_float
    kv = dict(x.split('=', 1) for x in resp.split()[1:])
    out = {}
    out['imp'] = {} if kv['imp'] == '-' else {bytes.fromhex(a).decode(): to_float(b) for a, b in
                                              (x.split(':') for x in kv['imp'].split(','))}
    out['u'] = None if kv['u'] == '-' else int(float(kv['u']))
    out['mat'] = None if kv['mat'] == '-' else kv['mat']
    out['rho'] = None if kv['rho'] == '-' else kv['rho']
    out['lat'] = None if kv['lat'] == '-' else int(kv['lat'])

    def tr(ps, star):
        ps = [to_float(x) for x in ps]
        if not ps and star:        # starred keyword without numbers: normalize_transform([]) = identity
            return (0., 0., 0., 1., 0., 0., 0., 1., 0., 0., 0., 1.)
        if len(ps) == 1:
            return tuple(TRTABLE[int(ps[0])][:12])
        if len(ps) == 3:
            return tuple(ps + [1., 0., 0., 0., 1., 0., 0., 0., 1.])
        if not ps:
            return ()
        # other counts go through normalize_transform (modelled and proved under C04, not part of the keyword logic):
        # the code's own function decides whether the numbers are a transformation; its value is not compared here
        from t4_geom_convert.Kernel.Transformation.Transformation import normalize_transform
        from MIP.geom.transforms import to_cos
        q = [float(x) for x in ps]
        if star:
            q[3:12] = list(map(to_cos, q[3:12]))
        normalize_transform(q)
        return 'not-compared'
    # every FILL / TRCL keyword's numbers are turned into a transformation when the keyword is read: one that is replaced
    # by a later keyword must still have been acceptable
    if kv.get('chk', '-') != '-':
        for part in kv['chk'].split('|'):
            f = part.split(';')
            tr(f[1:], f[0] == '1')
    if kv['fill'] == '-':
        out['f_univs'], out['f_params'] = None, None
    else:
        f = kv['fill'].split(',')
        if f[0].startswith('A'):
            # array form: index ranges, one universe per element (rounded as expand_data_card(dtype='int') does)
            out['f_bounds'] = [tuple(int(x) for x in r.split(':')) for r in f[1].split(';')]
            out['f_univs'] = [round(to_float(u)) for u in f[2].split(';')] if f[2] else []
            out['f_params'] = tr(f[3:], f[0] == 'A1')
        else:
            out['f_univs'], out['f_params'] = int(float(f[1])), tr(f[2:], f[0] == '1')
    out['trcl'] = None if kv['trcl'] == '-' else tr(kv['trcl'].split(',')[1:], kv['trcl'].split(',')[0] == '1')
    out.setdefault('f_bounds', None)
    return out


def kw_tokens(rng):
    """option tokens as parse_one_cell_worker hands them to parse_keywords (lower case, '=' and parentheses
    blanked), base options followed by 0-2 BUT option lists"""
    def one():
        k = rng.choice(['imp', 'imp', 'u', 'mat', 'rho', 'lat', 'fill', 'fill', 'trcl', 'trcl', 'other'])
        num = lambda: rng.choice(['0', '1', '2', '3', '1.5', '-2.5', '4.', '1e0', '+2', '.5'])  # noqa
        if k == 'imp':
            return [rng.choice(['imp:n', 'imp:p', 'imp:n,p', 'imp:p,n,e', 'imp:e']), rng.choice(['0', '1', '2', '0.5', '4'])]
        if k == 'u':
            return ['u', rng.choice(['1', '2', '3', '10'])]
        if k == 'mat':
            return ['mat', rng.choice(['1', '2', '7'])]
        if k == 'rho':
            return ['rho', rng.choice(['-1.0', '-2.50', '0.05', '1.5-2', '-1.'])]
        if k == 'lat':
            return ['lat', rng.choice(['1', '2', '1', '3'])]
        if k == 'fill' and rng.random() < 0.35:
            # array form: one to three index ranges, then one universe per element (sometimes with nR, sometimes one
            # too few or too many), then nothing, a TR number or a translation
            rs = []
            size = 1
            for _ in range(rng.choice([1, 1, 2, 2, 3])):
                lo = rng.randint(-2, 1)
                hi = lo + rng.choice([0, 1, 1, 2])
                rs.append('%d:%d' % (lo, hi))
                size *= hi - lo + 1
            if rng.random() < 0.03:
                rs[-1] = rng.choice(['1:0', '0:x', '1:2:3', ':', '2:1'])
            m = rng.random()
            count = size if m < 0.8 else max(0, size + rng.choice([-1, 1, 2]))
            us = []
            while len(us) < count:
                if us and rng.random() < 0.15 and count - len(us) >= 1:
                    k_ = rng.randint(1, min(3, count - len(us)))
                    us.append(rng.choice(['%dr' % k_, 'r'] if k_ == 1 else ['%dr' % k_]))
                    us += [None] * (k_ - 1)
                else:
                    us.append(rng.choice(['0', '1', '2', '3', '7', '2.0', '+3', '12']))
            us = [u for u in us if u is not None]
            if rng.random() < 0.02:
                us.insert(rng.randrange(len(us) + 1), rng.choice(['2i', '2m', 'j', 'x', '1log']))
            n = rng.choice([0, 0, 0, 1, 3])
            ps = [rng.choice(['1', '2', '3', '4', '5'])] if n == 1 else [num() for _ in range(n)]
            return [rng.choice(['fill', '*fill'])] + rs + us + ps
        if k == 'fill':
            n = rng.choice([0, 0, 1, 3])
            ps = [rng.choice(['1', '2', '3', '4', '5'])] if n == 1 else [num() for _ in range(n)]
            return [rng.choice(['fill', '*fill']), rng.choice(['1', '2', '3'])] + ps
        if k == 'trcl':
            n = rng.choice([0, 1, 3, 3])
            ps = [rng.choice(['1', '2', '3', '4', '5'])] if n == 1 else [num() for _ in range(n)]
            return [rng.choice(['trcl', '*trcl'])] + ps
        return [rng.choice(['tmp', 'vol', 'pwt', 'nonu', 'ext:n']), rng.choice(['1', '2.5'])]
    toks = []
    for _ in range(rng.randint(1, 3)):         # base + BUT lists
        for _ in range(rng.randint(0, 4)):
            toks += one()
    if rng.random() < 0.08 and toks:
        toks = toks[:-1]                        # a keyword without its value at the end
    return toks


def kwmodel_case(seed, rng, ctx):
    toks = kw_tokens(rng)
    key = h(tuple(toks))
    try:
        code = code_keywords(toks)
    except Exception as e:  # noqa
        code = ('error', type(e).__name__)
    resp = ctx['drv'].ask('kwmodel ' + ' '.join(toks)) if toks else 'ok imp=- u=- mat=- rho=- lat=- fill=- trcl=- chk=-'
    fails = []

    def dis(msg):
        fails.append(fail('disagreement', 'options %r: %s' % (toks, msg), {'stream': 'kwmodel'}, {'tokens': toks}))
    if resp.startswith('ok outside-model'):
        return dict(hashes=[key], nontrivial_hashes=[], dist={'kwmodel:outside-model': 1}, sample=None, failures=[])
    if resp.startswith('ok error'):
        if not isinstance(code, tuple):
            dis('model: %s, code gives %r' % (resp, code))
    elif not resp.startswith('ok'):
        dis('driver: ' + resp)
    else:
        try:
            exp = expected_from_model(resp)
        except Exception as e:  # noqa  (value the post-processing rejects, e.g. lat=3 handled below)
            exp = ('error', type(e).__name__)
        if isinstance(exp, dict) and exp['lat'] not in (None, 1, 2):
            exp = ('error', 'ParseMCNPCellError')
        if isinstance(exp, tuple) or isinstance(code, tuple):
            if not (isinstance(exp, tuple) and isinstance(code, tuple)):
                dis('model+post %r / code %r' % (exp, code))
        else:
            if isinstance(code['imp'], tuple):
                exp = dict(exp, imp=('max', max(exp['imp'].values()) if exp['imp'] else None))
            if any(exp[k] != code[k] for k in exp if exp[k] != 'not-compared'):
                dis('model+post %r / code %r' % (exp, code))
    return dict(hashes=[key], nontrivial_hashes=[key] if len(toks) > 2 else [],
                dist={'kwmodel:error' if isinstance(code, tuple) else 'kwmodel:ok': 1, 'kwmodel:tokens': len(toks)},
                sample={'tokens': toks, 'code': repr(code)[:300]}, failures=fails)


def run_case(stream, seed, ctx, params):
    rng = random.Random(seed)
    if stream == 'kwmodel':
        return kwmodel_case(seed, rng, ctx)
    if rng.random() < 0.5:
        d = G.build_flat_deck(rng, macro_p=0.1, ncells=rng.randint(2, 4), imp0_p=0.1)
        keys = ['mat', 'rho', 'trcl', 'imp']
    else:
        d = U.build_universe_deck(rng, depth=rng.randint(1, 2), macro_p=0.0, tr_p=0.0, fill_tr_p=0.3, trcl_p=0.2)
        keys = ['mat', 'rho', 'trcl', 'imp', 'u', 'fill']
    by_card = rng.random() < 0.35        # importances on an IMP:N data card, by position in the cell block
    if by_card:
        keys = [k for k in keys if k != 'imp']
    new = L.add_like_cells(d, rng, keys=keys)
    # (a LIKE card that itself carries an IMP keyword — the generator's fall-back when no other override applies — hands
    # that keyword on to the cells copied from it: such decks keep their importances on the cell cards)
    use_card = by_card and all('imp_text' not in c.hints for c in d.cells) and \
        all('imp:' not in c.hints.get('raw', '') for c in new)
    if use_card:
        # with an IMP data card the importance of a LIKE cell is the entry at ITS position, not the base cell's
        for c in new:
            if c.u == 0 and 'imp:' not in c.hints.get('raw', ''):
                c.imp = rng.choice([0, 1, 1, 2])
        if all(c.imp == 0 for c in d.cells if c.u == 0):
            next(c for c in d.cells if c.u == 0).imp = 1
    from ..gen_univ import _cyclic
    if _cyclic(d):
        return None
    # a LIKE card may stand anywhere after the card it refers to, not only at the end of the block
    if rng.random() < 0.6:
        for c in new:
            d.cells.remove(c)
            lo = max(i for i, x in enumerate(d.cells) if x.id == c.hints['like_of']) + 1
            d.cells.insert(rng.randint(lo, len(d.cells)), c)
    if use_card:
        d.imp_cards = {'n': [D.fnum(float(c.imp)) if rng.random() < 0.3 else str(int(c.imp)) if c.imp == int(c.imp) else D.fnum(c.imp)
                             for c in d.cells]}
    lay_seed = rng.random()
    text = D.render_deck(d, D.Layout(random.Random(lay_seed)))
    text2 = D.render_deck(L.expanded_copy(d), D.Layout(random.Random(lay_seed)))
    key = h(text)
    res = impl.convert(text, [])
    res2 = impl.convert(text2, [])
    replay = {'deck': text, 'expanded': text2, 'args': [], 'sexp': d.sexp()}
    fails = []
    chain = any(d.cell(c.hints['like_of']).hints.get('like_of') for c in new)
    dist = {'like:chain' if chain else 'like:single': 1, 'like:cells': len(new)}
    for c in new:
        for k in re.findall(r'(mat|rho|trcl|imp|fill|u)[:=]', c.hints['raw'].split(' but ' if ' but ' in c.hints['raw'] else ' BUT ')[-1]):
            dist['like:override-' + k] = dist.get('like:override-' + k, 0) + 1
    if res.ok != res2.ok:
        if is_degenerate(res) or is_degenerate(res2):
            return None
        fails.append(fail('violation', 'LIKE deck %s but expanded deck %s' % (res.exc_type or 'converted', res2.exc_type or 'converted'),
                          {'stream': 'like', 'class': 'accept-differs'}, replay))
    elif not res.ok:
        if is_degenerate(res):
            return None
        fails.append(fail('violation', 'valid deck rejected: %s: %s' % (res.exc_type, (res.exc_msg or '')[:200]),
                          {'stream': 'like', 'class': 'exception', 'error': res.exc_type}, replay))
    else:
        if strip_header(res.t4) != strip_header(res2.t4):
            a, b = strip_header(res.t4).splitlines(), strip_header(res2.t4).splitlines()
            diff = [(x, y) for x, y in zip(a, b) if x != y][:2]
            fails.append(fail('violation', 'output of the LIKE deck differs from the explicit deck: %r' % (diff,),
                              {'stream': 'like', 'class': 'output-differs'}, replay))
        pts = G.sample_points(rng, 100)
        agree, skip, mm = monitor(ctx, d, res.t4, pts)
        if mm:
            fails.append(fail('violation', 'LIKE deck: ownership differs from the reference: ' + ' | '.join(mm[:2]),
                              {'stream': 'like', 'class': 'point-mismatch'}, dict(replay, points=pts)))
    return dict(hashes=[key], nontrivial_hashes=[key], dist=dist,
                sample={'like-cards': [c.hints['raw'] for c in new]}, failures=fails[:4])


def replay(payload, ctx):
    p = payload.get('payload') or {}
    if 'tokens' in p:
        try:
            code = repr(code_keywords(p['tokens']))
        except Exception as e:  # noqa
            code = 'raises %s: %s' % (type(e).__name__, e)
        return {'code': code, 'model': ctx['drv'].ask('kwmodel ' + ' '.join(p['tokens']))}
    return replay_deck(payload, ctx)
