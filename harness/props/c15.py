"""C15 — LIKE n BUT equals the explicit cell card it abbreviates."""
import random
import re

from .geomcommon import *  # noqa
from .. import gen_univ as U
from .. import gen_like as L

ID = 'C15'
LEVEL = 'proof'
RULE = ('decks (flat and with universes) extended by 1–3 LIKE n BUT cells overriding random subsets of {mat, rho, u, '
        'fill, trcl, imp} with random values, incl. LIKE-of-LIKE chains where several levels override the same '
        'parameter, keyword case variants; each deck is converted twice — as written and with every LIKE card expanded '
        'by the generator — and the two outputs must be identical except for the header; the Lean point monitor '
        'also checks the LIKE deck against the expanded abstract deck. Non-trivial = every deck (it has a LIKE card).')
NOT_PROVED = []
ASSUMPTIONS = []


def plan(tier):
    q = tier == 'quick'
    return [('like', 300 if q else 5000, {})]


def search_plan(tier, disagreements):
    return [('like', 1200 if tier == 'quick' else 6000, {})]


def strip_header(t4):
    return '\n'.join(l for l in t4.splitlines() if not l.startswith('//'))


def run_case(stream, seed, ctx, params):
    rng = random.Random(seed)
    if rng.random() < 0.5:
        d = G.build_flat_deck(rng, macro_p=0.1, ncells=rng.randint(2, 4), imp0_p=0.1)
        keys = ['mat', 'rho', 'trcl', 'imp']
    else:
        d = U.build_universe_deck(rng, depth=rng.randint(1, 2), macro_p=0.0, tr_p=0.0, fill_tr_p=0.3, trcl_p=0.2)
        keys = ['mat', 'rho', 'trcl', 'imp', 'u', 'fill']
    new = L.add_like_cells(d, rng, keys=keys)
    from ..gen_univ import _cyclic
    if _cyclic(d):
        return None
    lay_seed = rng.random()
    text = D.render_deck(d, D.Layout(random.Random(lay_seed)))
    text2 = D.render_deck(L.expanded_copy(d), D.Layout(random.Random(lay_seed)))
    key = h(text)
    res = impl.convert(text, [])
    res2 = impl.convert(text2, [])
    replay = {'deck': text, 'expanded': text2, 'args': [], 'sexp': d.sexp()}
    fails = []
    chain = any(d.cell(c.hints['like_of']).hints.get('like_of') for c in new)
    dist = {'like:chain' if chain else 'like:single': 1, 'like:cells': len(new)}
    for c in new:
        for k in re.findall(r'(mat|rho|trcl|imp|fill|u)[:=]', c.hints['raw'].split(' but ' if ' but ' in c.hints['raw'] else ' BUT ')[-1]):
            dist['like:override-' + k] = dist.get('like:override-' + k, 0) + 1
    if res.ok != res2.ok:
        if is_degenerate(res) or is_degenerate(res2):
            return None
        fails.append(fail('violation', 'LIKE deck %s but expanded deck %s' % (res.exc_type or 'converted', res2.exc_type or 'converted'),
                          {'stream': 'like', 'class': 'accept-differs'}, replay))
    elif not res.ok:
        if is_degenerate(res):
            return None
        fails.append(fail('violation', 'valid deck rejected: %s: %s' % (res.exc_type, (res.exc_msg or '')[:200]),
                          {'stream': 'like', 'class': 'exception', 'error': res.exc_type}, replay))
    else:
        if strip_header(res.t4) != strip_header(res2.t4):
            a, b = strip_header(res.t4).splitlines(), strip_header(res2.t4).splitlines()
            diff = [(x, y) for x, y in zip(a, b) if x != y][:2]
            fails.append(fail('violation', 'output of the LIKE deck differs from the explicit deck: %r' % (diff,),
                              {'stream': 'like', 'class': 'output-differs'}, replay))
        pts = G.sample_points(rng, 100)
        agree, skip, mm = monitor(ctx, d, res.t4, pts)
        if mm:
            fails.append(fail('violation', 'LIKE deck: ownership differs from the reference: ' + ' | '.join(mm[:2]),
                              {'stream': 'like', 'class': 'point-mismatch'}, dict(replay, points=pts)))
    return dict(hashes=[key], nontrivial_hashes=[key], dist=dist,
                sample={'like-cards': [c.hints['raw'] for c in new]}, failures=fails[:4])


replay = replay_deck
