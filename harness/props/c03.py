"""C03 — macrobodies: interior, exterior and numbered facets."""
import random

from .geomcommon import *  # noqa
from . import probes as P

ID = 'C03'
LEVEL = 'proof'
RULE = ("probe decks for one macrobody card: whole body ('-b' / '+b') and every facet ('-b.k' / '+b.k') of BOX (both "
        'handednesses, tilted), RPP, SPH, RCC (tilted), RHP/HEX with 9 and 15 entries (three axes, reversed height), '
        'REC with 10 and 12, TRC (either radius larger), ELL in both parameterisations, WED (both handednesses, '
        'reversed height), ARB hexahedron and prism with shuffled facet descriptors; 300 points per deck; Lean spec '
        '(solid = all facet functions negative, facet k = k-th function, outward positive) vs written file. '
        'Streams mixed / filled: macrobodies and their facets inside BSP decks and inside transformed universes. Distinct = (body, parameters, facet).')
NOT_PROVED = ['every body of the table has its theorem; macrobodies under a transformation or inside a filled universe are '
              'the composition with C04 / C05, decided by the mixed / filled streams (point monitor), not by a composed theorem',
              'degenerate bodies (zero edge, collinear ARB vertices, centroid in a facet plane) are outside the hypotheses: the '
              'model rejects them where the code raises (macromodel correspondence)']
ASSUMPTIONS = ['right boxes / wedges / prisms, convex ARB with planar facets (MCNP admissibility)']


MODELLED = ['rpp', 'box', 'sph', 'rcc', 'rhp9', 'rhp15', 'hex', 'rec10', 'rec12', 'trc', 'ell+', 'ell-', 'wed', 'arb6', 'arb5']


def plan(tier):
    q = tier == 'quick'
    return [('probe', 330 if q else 6000, {}), ('mixed', 80 if q else 1500, {}), ('filled', 100 if q else 2000, {}),
            ('macromodel', 500 if q else 12000, {})]


def search_plan(tier, disagreements):
    return [('probe', 2000 if tier == 'quick' else 12000, {'npts': 600})]


def run_case(stream, seed, ctx, params):
    rng = random.Random(seed)
    if stream == 'mixed':
        d = G.build_flat_deck(rng, macro_p=0.8, tr_p=0.0, nsurf=rng.randint(1, 4))
        return run_deck(ctx, stream, d, [], rng, npts=200)
    if stream == 'filled':
        # macrobodies and their facets inside universes placed by transformations (every reference is
        # transformed, possibly several references to one body under the same transformation)
        from .. import gen_univ as U
        d = U.build_universe_deck(rng, depth=rng.randint(1, 2), macro_p=0.85, tr_p=0.1, fill_tr_p=0.9, trcl_p=0.4)
        return run_deck(ctx, stream, d, [], rng, npts=200)
    if stream == 'macromodel':
        from . import c02
        kind = MODELLED[seed % len(MODELLED)]
        mn, ps = G.macrobody(rng, [kind])
        if rng.random() < 0.3 and mn != 'arb':
            # (ARB facet descriptors are integers; a negative one sends parse_facet into an endless loop)
            ps = [x + rng.choice([0.0, 0.125, -0.25]) for x in ps]
        if rng.random() < 0.05:
            ps = ps[:-1]
        elif rng.random() < 0.1:
            k_ = rng.choice([400.0, 1000.0, 2500.0])
            nlen = len(ps) - 6 if mn == 'arb' else len(ps)
            ps = [x * k_ if i < nlen else x for i, x in enumerate(ps)]
        return c02.compare_card(ctx, 'macromodel', mn, ps, 'macromodel')
    kind = P.MACRO[seed % len(P.MACRO)]
    mn, ps = G.macrobody(rng, [kind])
    nf = G.nfacets(mn, ps)
    facet = None if rng.random() < 0.35 else rng.randint(1, nf)
    big = rng.random() < 0.2
    if big:
        # the same body a thousand times larger (metres to kilometres: a reactor hall, a site model): every parameter of
        # a macrobody is a length, except the facet descriptors of an ARB
        k_ = rng.choice([400.0, 1000.0, 2500.0])
        nlen = len(ps) - 6 if mn == 'arb' else len(ps)
        ps = [x * k_ if i < nlen else x for i, x in enumerate(ps)]
    d = P.probe_deck(mn, ps, facet=facet)
    if big:
        d.probe_points = [[c_ * k_ for c_ in q] for q in G.sample_points(rng, 250)]
    if mn == 'trc':
        d.probe_points = list(getattr(d, 'probe_points', None) or []) + G.trc_probe_points(ps, rng)
    r = run_deck(ctx, stream, d, [], rng, npts=params.get('npts', 300),
                 extra_sig={'body': kind, 'facet': facet})
    if r is not None:
        r['dist']['probe:%s%s' % (kind, '' if facet is None else '.facet')] = 1
    return r


def replay(payload, ctx):
    from . import c02
    return c02.replay(payload, ctx)
