"""Probe decks for single surfaces / macrobodies / transformations (C02, C03, C04)."""
import math
import random

from .. import deck as D
from .. import gen_geom as G

ELEMENTARY = ['px', 'py', 'pz', 'p', 'p3', 'so', 's', 'sx', 'sy', 'sz', 'c/x', 'c/y', 'c/z', 'cx', 'cy', 'cz',
              'k/x', 'k/y', 'k/z', 'kx', 'ky', 'kz', 'k/x1', 'k/y1', 'k/z1', 'kx1', 'ky1', 'kz1', 'sq', 'gq',
              'tx', 'ty', 'tz', 'x', 'y', 'z']
MACRO = ['rpp', 'box', 'sph', 'rcc', 'rhp9', 'rhp15', 'hex', 'rec10', 'rec12', 'trc', 'ell+', 'ell-', 'wed', 'arb6',
         'arb5']


def probe_deck(mn, ps, tr=None, trnum=None, facet=None):
    """cells 1 = negative side, 2 = positive side of surface 1 (or of its facet)"""
    d = D.Deck()
    d.surfs = [D.Surf(1, mn, ps, tr=tr, trnum=trnum)]
    if facet is None:
        d.cells = [D.Cell(1, ('s', -1), mat=1, rho='-1.0'), D.Cell(2, ('s', 1), mat=2, rho='-2.0')]
    else:
        d.cells = [D.Cell(1, ('f', -1, facet), mat=1, rho='-1.0'), D.Cell(2, ('f', 1, facet), mat=2, rho='-2.0')]
    d.mats = {1: [('13027', '1.0')], 2: [('26056', '1.0')]}
    return d


def p3_through_origin(rng):
    """three-point plane through the origin (exercises the C=0 / B=0 cascade of the orientation rule)"""
    fam = rng.choice(['x=z', 'x=y', 'z=0', 'y=0', 'x=0', 'gen', '2x+y-z'])
    if fam == 'x=z':
        pts = [[0, 0, 0], [1, 0, 1], [0, 1, 0]]
    elif fam == 'x=y':
        pts = [[0, 0, 0], [1, 1, 0], [0, 0, 1]]
    elif fam == 'z=0':
        pts = [[0, 0, 0], [1, 0, 0], [0, 1, 0]]
    elif fam == 'y=0':
        pts = [[0, 0, 0], [1, 0, 0], [0, 0, 1]]
    elif fam == 'x=0':
        pts = [[0, 0, 0], [0, 1, 0], [0, 0, 1]]
    elif fam == '2x+y-z':
        pts = [[0, 0, 0], [1, 0, 2], [0, 1, 1]]
    else:
        n = G.nonzero_vec(rng)
        a = G.cross(n, [1.0, 0.0, 0.0]) if (n[1] or n[2]) else [0.0, 1.0, 0.0]
        b = G.cross(n, a)
        pts = [[0, 0, 0], a, b]
    pts = [[float(x) for x in p] for p in pts]
    if rng.random() < 0.5:
        pts[1], pts[2] = pts[2], pts[1]
    k = rng.randrange(3)
    pts = pts[k:] + pts[:k]
    sc = rng.choice([1.0, 2.0, -1.0])
    return 'p', [x * sc for p in pts for x in p]


def sq_card(rng):
    """SQ cards incl. linear terms with off-origin reference point and cards positive at their centre"""
    c = lambda: rng.choice(G.HALF)  # noqa
    kind = rng.choice(['ell', 'cyl', 'hyp', 'par', 'par', 'pos', 'lin', 'lin'])
    if kind == 'lin':
        # all three linear coefficients and an off-origin reference point: every term of the expansion matters
        lin = [rng.choice([0.5, -0.25, 0.75, -1.0]) for _ in range(3)]
        return 'sq', [rng.choice([1., 2.]), rng.choice([1., 3.]), rng.choice([1., 2., 0.])] + lin + [-rng.choice([4., 9.]), c(), c(), c()]
    if kind == 'ell':
        return 'sq', [rng.choice([1., 2.]), rng.choice([1., 3.]), rng.choice([1., 2.]), 0., 0., 0., -rng.choice([4., 9.]), c(), c(), c()]
    if kind == 'cyl':
        return 'sq', [1., rng.choice([1., 2.]), 0., 0., 0., 0., -4., c(), c(), c()]
    if kind == 'hyp':
        return 'sq', [1., 1., -1., 0., 0., 0., -1., c(), c(), c()]
    if kind == 'par':
        # x² + y² - z (paraboloid), vertex off the origin: linear coefficient F = -0.5
        return 'sq', [1., 1., 0., 0., 0., -0.5, 0., c(), c(), c()]
    return 'sq', [1., 1., -1., 0., 0., 0., 1., c(), c(), c()]     # positive at the centre (two-sheet hyperboloid)


def sq_positive_centre(ps):
    a, b, c, dd, e, f, g = ps[:7]
    return g > 0


# ------------------------------------------------------------------ TR card spellings

def spell_tr(rng, num, m, kinds=None):
    """returns (card text, kind); the abstract deck keeps the full motion `m`"""
    o, b = m.o, m.b
    f = D.fnum
    pure = m.is_translation()
    kinds = kinds or (['three', 'full'] if pure else
                      ['full', 'star', 'full13', 'rows12', 'rows23', 'rows13', 'cols12', 'cols23', 'cols13', 'five_a', 'five_b'])
    kind = rng.choice(kinds)

    def deg(c):
        return math.degrees(math.acos(max(-1.0, min(1.0, c))))
    J = 'j'
    if kind == 'three':
        return 'tr%d %s' % (num, ' '.join(f(v) for v in o)), kind
    if kind == 'full':
        return 'tr%d %s' % (num, ' '.join(f(v) for v in o + b)), kind
    if kind == 'star':
        return '*tr%d %s' % (num, ' '.join(f(v) for v in o + [deg(c) for c in b])), kind
    if kind == 'full13':
        return 'tr%d %s 1' % (num, ' '.join(f(v) for v in o + b)), kind
    ent = [f(v) for v in b]
    if kind == 'rows12':
        e = ent[:6]
    elif kind == 'rows23':
        e = ['3' + J] + ent[3:]
    elif kind == 'rows13':
        e = ent[:3] + ['3' + J] + ent[6:]
    elif kind == 'cols12':
        e = [ent[0], ent[1], J, ent[3], ent[4], J, ent[6], ent[7]]
    elif kind == 'cols23':
        e = [J, ent[1], ent[2], J, ent[4], ent[5], J, ent[7], ent[8]]
    elif kind == 'cols13':
        e = [ent[0], J, ent[2], ent[3], J, ent[5], ent[6], J, ent[8]]
    elif kind == 'five_a':
        e = ent[:4] + ['2' + J, ent[6]]
    else:  # five_b: second row and second column
        e = [J, ent[1], J, ent[3], ent[4], ent[5], J, ent[7]]
    return 'tr%d %s %s' % (num, ' '.join(f(v) for v in o), ' '.join(e)), kind


def sin_beta_ok(m, kind):
    """the 5-entry completion needs the given row not to be a coordinate axis (sin β ≠ 0)"""
    b = m.b
    if kind == 'five_a':
        return abs(b[0]) < 0.999
    if kind == 'five_b':
        return abs(b[4]) < 0.999
    return True
