"""C05 — universes and FILL: points are located through the hierarchy."""
import random

from .geomcommon import *  # noqa
from .. import gen_univ as U

ID = 'C05'
LEVEL = 'proof'
RULE = ('decks with universe trees (depth 1–3, 1–3 cells per universe, one universe reused in several containers, '
        'FILL by number / inline / starred, with translation, signed axis permutations, Pythagorean and generic '
        'rotations; TRCL-only containers; containers with both), cells of each universe partition space by '
        'construction. Streams: monitor (Lean spec MCNP.locate vs owners + provenance comment + composition of the '
        'written file, 150 points per deck, under random option sets), model (Layer-B correspondence) and fillmodel '
        '(which cells pot_fill creates, in which order, with which provenance, material, density and through which '
        'transformations, vs the Lean model). '
        'Non-trivial = at least one filled cell; distinct = distinct (deck text, options).')
NOT_PROVED = ['the frame map is chosen and recorded by the pot_fill model (FILL transformation, else the TRCLs: frame_choice, '
              'fill_transformation_overrides_trcl, moves_transport; tied to the code by the fillmodel stream, which recovers '
              'from the cell_transform calls of pot_fill the transformations every generated cell went through); how a '
              'filler is moved by one transformation is C04 transformed_tree / transformed_cell; that the numbers of a TR '
              'card / inline / starred form denote the rigid motion is C04 (TR card theorems)']
ASSUMPTIONS = ['universe graphs are acyclic']


def plan(tier):
    q = tier == 'quick'
    return [('monitor', 260 if q else 4000, {}), ('model', 80 if q else 1500, {}), ('fillmodel', 120 if q else 2500, {})]


def search_plan(tier, disagreements):
    return [('monitor', 1200 if tier == 'quick' else 8000, {'npts': 300})]


def fillmodel_case(seed, rng, ctx):
    """which cells pot_fill creates (order, provenance, material, density) vs the Lean model"""
    d = U.build_universe_deck(rng, depth=rng.randint(1, 3), macro_p=0.1, tr_p=0.1, fill_tr_p=0.6, trcl_p=0.4, reuse_p=0.6)
    args = random_options(rng)
    text = D.render_deck(d, D.Layout(rng))
    key = h((text, tuple(args)))
    res, cap = C.convert_capture(text, args)
    if not res.ok or cap.cells_after is None:
        return None
    cells = cap.cells_after
    orig_ids = [c.id for c in d.cells]
    if any(cells[i]['lat'] or cells[i]['fillid'] == 'array' for i in orig_ids if i in cells):
        return None
    items = []
    inlined = '--always-inline-filling' in args
    for i in orig_ids:
        c = cells[i]
        ft, tc = cap.fill_frames.get(i, (None, []))
        items.append('%d:%d:%s:%s:%s:%s:%s' % (i, c['u'], '-' if c['fillid'] is None else c['fillid'], lean.hx(c['mat']),
                                               lean.hx('' if c['rho'] is None else str(c['rho'])),
                                               '-' if ft is None else ft, ','.join(map(str, tc)) or '-'))
    resp = ctx['drv'].ask('fillmodel ' + ' '.join(items))
    new = sorted(k for k in cells if k not in orig_ids and cells[k]['u'] == 0 and not cells[k]['filled']
                 and cells[k]['origin'])
    # the transformations each generated cell's filler went through (FILL transformation, else the TRCLs of the
    # container, level after level): recovered from the cell_transform calls pot_fill made; with
    # --always-inline-filling the moved filler is inlined and cannot be identified, the column is then dropped
    code = ['%d;%s;%s;%s;%s' % (cells[k]['origin'][0][0], ','.join('%d-%d' % ab for ab in cells[k]['origin']),
                                lean.hx(cells[k]['mat']), lean.hx('' if cells[k]['rho'] is None else str(cells[k]['rho'])),
                                '' if inlined else ','.join(map(str, cap.fill_moves.get(k, ['?']))))
            for k in new]
    fails = []
    model = resp.split()[1:] if resp.startswith('ok') and resp != 'ok none' else resp
    if inlined and isinstance(model, list):
        model = [m.rsplit(';', 1)[0] + ';' for m in model]
    if model != code:
        fails.append(fail('disagreement', 'pot_fill: code creates %r / model %r' % (code, model), {'stream': 'fillmodel'},
                          {'deck': text, 'args': args}))
    depth = max([len(cells[k]['origin']) for k in new] or [0])
    both = sum(1 for ft, tc in cap.fill_frames.values() if ft is not None and tc)
    return dict(hashes=[key], nontrivial_hashes=[key] if new else [],
                dist={'fillmodel:leaves': len(new), 'fillmodel:depth-%d' % depth: 1,
                      'fillmodel:leaves-moved': sum(1 for k in new if cap.fill_moves.get(k)),
                      'fillmodel:leaves-moved-twice-or-more': sum(1 for k in new if len(cap.fill_moves.get(k, [])) >= 2),
                      'fillmodel:containers-with-fill-transformation-and-trcl': both,
                      'fillmodel:moves-column-dropped(inline-filling)': int(inlined)},
                sample={'leaves': code[:6]}, failures=fails)


def run_case(stream, seed, ctx, params):
    rng = random.Random(seed)
    if stream == 'fillmodel':
        return fillmodel_case(seed, rng, ctx)
    d = U.build_universe_deck(rng, depth=rng.randint(1, 3), macro_p=0.15, tr_p=0.1,
                              fill_tr_p=0.7, trcl_p=0.35, reuse_p=0.5)
    args = random_options(rng)
    r = run_deck(ctx, stream, d, args, rng, npts=params.get('npts', 150), check_model=(stream == 'model'))
    if r is not None and not any(c.fill for c in d.cells):
        r['nontrivial_hashes'] = []
    return r


replay = replay_deck
