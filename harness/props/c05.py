"""C05 — universes and FILL: points are located through the hierarchy."""
import random

from .geomcommon import *  # noqa
from .. import gen_univ as U

ID = 'C05'
LEVEL = 'proof'
RULE = ('decks with universe trees (depth 1–3, 1–3 cells per universe, one universe reused in several containers, '
        'FILL by number / inline / starred, with translation, signed axis permutations, Pythagorean and generic '
        'rotations; TRCL-only containers; containers with both), cells of each universe partition space by '
        'construction. Streams: monitor (Lean spec MCNP.locate vs owners + provenance comment + composition of the '
        'written file, 150 points per deck, under random option sets) and model (Layer-B correspondence). '
        'Non-trivial = at least one filled cell; distinct = distinct (deck text, options).')
NOT_PROVED = []
ASSUMPTIONS = ['universe graphs are acyclic', 'filler cells have non-zero importance']


def plan(tier):
    q = tier == 'quick'
    return [('monitor', 260 if q else 4000, {}), ('model', 80 if q else 1500, {})]


def search_plan(tier, disagreements):
    return [('monitor', 1200 if tier == 'quick' else 8000, {'npts': 300})]


def run_case(stream, seed, ctx, params):
    rng = random.Random(seed)
    d = U.build_universe_deck(rng, depth=rng.randint(1, 3), macro_p=0.15, tr_p=0.1,
                              fill_tr_p=0.7, trcl_p=0.35, reuse_p=0.5)
    args = random_options(rng)
    r = run_deck(ctx, stream, d, args, rng, npts=params.get('npts', 150), check_model=(stream == 'model'))
    if r is not None and not any(c.fill for c in d.cells):
        r['nontrivial_hashes'] = []
    return r


replay = replay_deck
