"""C10 — material cards become compositions with the same nuclides and amounts."""
import random

from .geomcommon import *  # noqa

ID = 'C10'
LEVEL = 'proof'
RULE = ('decks with 1–4 material cards, each used by 1–2 cells: Z from 1 to 118 (every Z over a run), mass numbers '
        '000 / 1–3 digits, library suffixes (.70c, .80c), keyword entries (nlib=70c, gas=1) anywhere, 1–8 entries, '
        'repeated nuclides, fraction spellings (integers, decimals, exponents), all-positive or all-negative cards, '
        'negative (mass) and positive (atom) cell densities, several cards in either order. The Lean spec '
        '(Spec/Comp.lean) computes from the card tokens the expected nuclide list / NB_ATOM flag / fractions / '
        'concentrations and checks the COMPOSITION block of the written file; mixed-sign cards must be rejected; the '
        'element table is compared exhaustively with both Python enums. Stream compmodel: the real pipeline '
        '(get_material_composition on a deck file read by the real parser … writeT4Composition) against the Lean model '
        '(Model/Composition.lean) on 1–4 cards (30 % with one malformed card: dangling ZAID, mixed signs, ZAIDs that are '
        'too short / Z = 0 / Z > 118 / contain letters, a repeated card number, bare signs and malformed fractions) and '
        '1–6 cells (live or not, any material, 16 density spellings incl. ±0): the words of every line (amounts of '
        'POINT_WISE compositions masked) or the class of the exception. Distinct = distinct material cards.')
NOT_PROVED = ["the theorems are about the composition models (compExpected, rescale, Model/Composition); that the code emits exactly "
              "the model's lines is the correspondence (cards / rescale / table / compmodel streams), not a theorem; floating-point rounding "
              "of the sum is bounded by the harness (1e-12 relative), not proved"]
ASSUMPTIONS = ['%.15e formatting and fsum are outside the model: concentrations are compared to 1e-12 relative']

SUFF = ['', '', '.70c', '.80c', '.31c']
FRACS_POS = ['1', '2', '0.5', '1.0', '2.5e-1', '0.1', '3', '1e-2', '0.25', '6.02e-1',
             '1.e-3', '9.E-01', '2.d-2', '.5', '5.', '6.67-1', '1.5D-1', '4.e0', '.25e1', '1.E+0']
# a nuclide with a zero amount (depletion-style placeholder) is still a nuclide of the card
FRACS_ZERO = ['0', '0.0', '0.', '0.000', '0.0e0']
A_OF = {1: [1, 2, 3], 8: [16, 17, 18], 92: [235, 238, 234], 26: [54, 56, 57], 6: [12, 13], 13: [27], 94: [239, 240]}


def plan(tier):
    q = tier == 'quick'
    return [('cards', 300 if q else 5000, {}), ('table', 1, {}), ('rescale', 300 if q else 5000, {}),
            ('compmodel', 400 if q else 8000, {})]


def search_plan(tier, disagreements):
    return [('cards', 1200 if tier == 'quick' else 6000, {})]


def gen_card(rng, zpick):
    n = rng.randint(1, 8)
    neg = rng.random() < 0.4
    plus_card = not neg and rng.random() < 0.1
    toks = []
    ents = []
    for i in range(n):
        z = zpick() if rng.random() < 0.7 else rng.choice(list(A_OF))
        a = rng.choice([0, 0] + A_OF.get(z, [2 * z, 2 * z + 1, 1])) if rng.random() < 0.9 else rng.randint(1, 299)
        zaid = '%d%03d' % (z, a)
        f = rng.choice(FRACS_POS)
        if i > 0 and rng.random() < 0.06:
            f = rng.choice(FRACS_ZERO)
        if neg:
            f = '-' + f
        elif plus_card or rng.random() < 0.05:
            f = '+' + f          # an explicit plus sign is a positive (atom) fraction like any other
        ents.append((zaid, f))
        if rng.random() < 0.12:
            toks.append(rng.choice(['nlib=70c', 'gas=1', 'plib=04p']))
        toks += [zaid + rng.choice(SUFF), f]
    if rng.random() < 0.1:
        toks.append('nlib=80c')
    if rng.random() < 0.25 and len(ents) >= 2:
        # repeat a nuclide (same ZAID, another suffix)
        z0, f0 = ents[0]
        toks += [z0 + '.80c', ('-' if neg else '') + rng.choice(FRACS_POS)]
    return toks, neg


def rescale_case(seed, rng, ctx):
    """rescale_fractions (the code sums with math.fsum) vs the Lean model (plain left-to-right sum): agreement to
    1e-12 relative; the strings written are '%.15e' of the code's values"""
    import struct
    from t4_geom_convert.Kernel.Composition.ConstructCompositionT4 import rescale_fractions
    n = rng.randint(1, 9)
    frs = [rng.choice(FRACS_POS) for _ in range(n)]
    rho = rng.choice([0.05, 0.0602, 1.0, 8.5e-2, 1.2345e-3, 4.0])
    code = [float(c) for _, c in rescale_fractions([('X%d' % i, f) for i, f in enumerate(frs)], rho)]
    from MIP.mip.utils import to_float
    resp = ctx['drv'].ask('rescale %r %s' % (rho, ' '.join(repr(to_float(f)) for f in frs)))
    fails = []
    key = h((tuple(frs), rho))
    if not resp.startswith('ok '):
        fails.append(fail('disagreement', 'driver: ' + resp, {'stream': 'rescale'}, {'fractions': frs, 'rho': rho}))
    else:
        model = [struct.unpack('<d', struct.pack('<Q', int(b)))[0] for b in resp.split()[1:]]
        if len(model) != len(code) or any(abs(a - b) > 1e-12 * max(abs(a), abs(b), 1e-300) for a, b in zip(model, code)):
            fails.append(fail('disagreement', 'rescale_fractions(%r, %r): code %r / model %r' % (frs, rho, code, model),
                              {'stream': 'rescale'}, {'fractions': frs, 'rho': rho}))
        if abs(sum(code) - rho) > 1e-12 * rho:
            fails.append(fail('violation', 'concentrations %r do not sum to the atom density %r' % (code, rho),
                              {'stream': 'rescale', 'class': 'sum'}, {'fractions': frs, 'rho': rho}))
    return dict(hashes=[key], nontrivial_hashes=[key] if n > 1 else [], dist={'rescale:n-%d' % n: 1},
                sample={'fractions': frs, 'rho': rho, 'code': code[:4]}, failures=fails)


def compmodel_case(seed, rng, ctx):
    """get_material_composition → CCompositionMCNP → compositionConversionMCNPToT4 → constructCompositionT4 →
    writeT4Composition (the real functions, on the M cards of a deck file read by the real MIP parser and on a
    dictionary of cells) vs the Lean model (Model/Composition.lean): the same lines word for word (the amounts of
    POINT_WISE compositions, which are floating-point results, masked), or the same class of exception"""
    import io
    import os
    import types
    from collections import OrderedDict
    from ..lean import hx
    impl.ensure()
    from MIP import mip
    from t4_geom_convert.Kernel.FileHandlers.Writer.WriteT4Composition import writeT4Composition
    zs = list(range(1, 119))
    zbase = seed % 118

    def zpick():
        return zs[(zbase + rng.randint(0, 3)) % 118]
    nm = rng.randint(1, 4)
    nums = rng.sample([1, 2, 3, 5, 12, 40], nm)
    cards = []
    for k in nums:
        toks, _neg = gen_card(rng, zpick)
        cards.append((k, toks))
    malformed = rng.random() < 0.3
    if malformed:
        k, toks = rng.choice(cards)
        toks = list(toks)
        what = rng.choice(['dangling', 'mixed', 'short', 'z0', 'z119', 'letters', 'dup', 'trailing-kw', 'empty-mass', 'bare-minus', 'bad-frac'])
        idx = [i for i, t in enumerate(toks) if '=' not in t]
        if what == 'dangling':
            toks.append('92235.70c')
        elif what == 'mixed' and len(idx) >= 4:
            j = idx[3]
            toks[j] = toks[j][1:] if toks[j].startswith('-') else '-' + toks[j]
        elif what == 'short':
            toks[idx[0]] = rng.choice(['12', '1', '123', '001'])
        elif what == 'z0':
            toks[idx[0]] = rng.choice(['0001', '000235', '0016.70c'])
        elif what == 'z119':
            toks[idx[0]] = rng.choice(['119300', '120000.80c', '999999'])
        elif what == 'letters':
            toks[idx[0]] = rng.choice(['9223a', 'u235', '92x35.70c', '92235c'])
        elif what == 'dup':
            cards.append((k, gen_card(rng, zpick)[0]))
        elif what == 'trailing-kw':
            toks.append('gas=1')
        elif what == 'bare-minus' and len(idx) >= 2:
            toks[idx[1]] = '-' if toks[idx[1]].startswith('-') else rng.choice(['+', '-'])
        elif what == 'bad-frac' and len(idx) >= 2:
            toks[idx[1]] = ('-' if toks[idx[1]].startswith('-') else '') + rng.choice(['1.2.3', 'e5', '1e', '.', '1-', '--1'])
        elif what == 'empty-mass':
            toks[idx[0]] = rng.choice(['.70c', '1001.'])
        cards = [(kk, toks if kk == k and tt is not None and what != 'dup' else tt) for kk, tt in cards]
    dens = ['-2.7', '-1.0', '-7.8e0', '0.05', '1.2-2', '6.0e-2', '-0.5', '-2.70', '-1.', '5-2', '-2.7', '0.0', '-0.0',
            '1.d-1', '-.5', '+2.5']
    cells = OrderedDict()
    spec_cells = []
    for i in range(rng.randint(1, 6)):
        mat = rng.choice(nums + [0, 7])
        live = rng.random() < 0.8
        d = rng.choice(dens)
        why = rng.choice(['imp', 'univ', 'fill'])
        cells[i + 1] = types.SimpleNamespace(importance=1.0 if live or why != 'imp' else 0.0,
                                             universe=0 if live or why != 'univ' else 3,
                                             fillid=None if live or why != 'fill' else 4,
                                             materialID=str(mat), density=d if mat != 0 else None)
        spec_cells.append((live, mat, d))
    text = 'deck\n1 0 -1\n2 0 1\n\n1 so 1.0\n\n' + ''.join('m%d %s\n' % (k, ' '.join(t)) for k, t in cards) + '\n'
    path = os.path.join(impl.scratch_dir(), 'comp.imcnp')
    with open(path, 'w') as f:
        f.write(text)
    buf = io.StringIO()
    import contextlib
    import warnings
    try:
        with contextlib.redirect_stdout(io.StringIO()), warnings.catch_warnings():
            warnings.simplefilter('ignore')
            writeT4Composition(mip.MIP(path), cells, buf)
        lines = buf.getvalue().split('\n')
        assert lines[0] == '' and lines[1] == 'COMPOSITION' and lines[-2] == 'END_COMPOSITION', lines[:3]
        out, pw = [], False
        for ln in lines[2:-2]:
            ws = ln.split()
            if ws and ws[0] in ('POINT_WISE', 'DENSITY'):
                pw = ws[0] == 'POINT_WISE' and ws[2] != 'm0'
            elif pw and len(ws) == 2:
                ln = ln[:ln.rindex(' ') + 1] + '*'
            out.append(' '.join(ln.split()))       # TRIPOLI-4 input is free-format: the amount of blank space is immaterial
        code = 'ok ' + ' '.join(hx(ln) for ln in out)
    except Exception as ex:  # noqa
        code = 'ok error ' + type(ex).__name__
    req = '(comp (cards %s) (cells %s))' % (
        ' '.join('(m %d %s)' % (k, ' '.join(hx(t) for t in toks)) for k, toks in cards),
        ' '.join('(c %d %d %s)' % (1 if lv else 0, m, hx(d)) for lv, m, d in spec_cells))
    model = ctx['drv'].ask('compmodel ' + hx(req))
    if model.startswith('ok ') and not model.startswith('ok error'):
        from ..lean import unhx
        model = 'ok ' + ' '.join(hx(' '.join(unhx(t).split())) for t in model.split()[1:])
    key = h(req)
    fails = []
    if model != code:
        fails.append(fail('disagreement', 'COMPOSITION block: code %s / model %s' % (code[:300], model[:300]),
                          {'stream': 'compmodel'}, {'cards': cards, 'cells': spec_cells}))
    return dict(hashes=[key], nontrivial_hashes=[key],
                dist={'compmodel:' + ('error-' + code.split()[-1] if code.startswith('ok error') else 'written'): 1,
                      'compmodel:malformed' if malformed else 'compmodel:plain': 1},
                sample={'cards': cards[:2], 'code': code[:200]}, failures=fails)


def run_case(stream, seed, ctx, params):
    rng = random.Random(seed)
    if stream == 'rescale':
        return rescale_case(seed, rng, ctx)
    if stream == 'compmodel':
        return compmodel_case(seed, rng, ctx)
    drv = ctx['drv']
    if stream == 'table':
        from t4_geom_convert.Kernel.Composition.EIsotopeNameElementT4 import EIsotopeNameElement
        from t4_geom_convert.Kernel.Composition.EIsotopeAtomicNumberMCNP import EIsotopeAtomicNumber
        model = drv.ask('elements').split()[1:]
        code = [EIsotopeNameElement(getattr(EIsotopeAtomicNumber, str(z)).value).name for z in range(1, 119)]
        fails = []
        if model != code or len(EIsotopeNameElement) != 118 or len(EIsotopeAtomicNumber) != 118:
            fails.append(fail('disagreement', 'element table: code %s… / model %s…' % (code[:5], model[:5]),
                              {'stream': 'table'}, {}))
        return dict(evaluations=118, hashes=[h(z) for z in range(118)], nontrivial_hashes=[h(z) for z in range(118)],
                    dist={'table:elements': 118}, sample={'Z1..5': code[:5]}, failures=fails)
    zs = list(range(1, 119))
    zbase = seed % 118

    def zpick():
        return zs[(zbase + rng.randint(0, 3)) % 118]
    nm = rng.randint(1, 4)
    d = D.Deck()
    d.surfs = [D.Surf(i, 'so', [float(i)]) for i in range(1, 2 * nm + 2)]
    cards = {}
    order = list(range(1, nm + 1))
    cells = []
    cid = 1
    inner = None
    for mnum in order:
        toks, neg = gen_card(rng, zpick)
        cards[mnum] = toks
        for k in range(rng.randint(1, 2)):
            rho = rng.choice(['-2.7', '-1.0', '-7.8e0', '0.05', '1.2-2', '6.0e-2', '-0.5'])
            e = ('s', -cid) if cid == 1 else ('i', ('s', cid - 1), ('s', -cid))
            cells.append(D.Cell(cid, e, mat=mnum, rho=rho))
            cid += 1
    cells.append(D.Cell(cid, ('s', cid - 1), imp=0))
    d.cells = cells
    items = list(cards.items())
    if rng.random() < 0.5:
        rng.shuffle(items)
    d.mats = {}
    for mnum, toks in items:
        d.mats[mnum] = [(' '.join(toks), '')]
    mixed = rng.random() < 0.12
    if mixed:
        mnum = rng.choice(order)
        toks = cards[mnum]
        idx = [i for i, t in enumerate(toks) if '=' not in t]
        fr = [i for k, i in enumerate(idx) if k % 2 == 1]
        if len(fr) >= 2:
            j = rng.choice(fr[1:]) if rng.random() < 0.7 else fr[0]
            toks[j] = toks[j][1:] if toks[j].startswith('-') else '-' + toks[j]
            d.mats[mnum] = [(' '.join(toks), '')]
        else:
            mixed = False
    text = D.render_deck(d, D.Layout(rng)).replace('  \n', '\n')
    res = impl.convert(text, [])
    key = h(text)
    replay = {'deck': text, 'args': []}
    fails = []
    dist = {'cards:materials': nm, 'cards:mixed-sign' if mixed else 'cards:consistent': 1}
    if mixed:
        if res.ok:
            fails.append(fail('violation', 'a material card mixing positive and negative fractions was converted',
                              {'stream': 'cards', 'class': 'mixed-accepted'}, replay))
        return dict(hashes=[key], nontrivial_hashes=[key], dist=dist, sample={'deck': text[-400:]}, failures=fails)
    if not res.ok:
        return dict(hashes=[key], nontrivial_hashes=[key], dist=dist, sample=None,
                    failures=[fail('violation', 'valid deck rejected: %s: %s' % (res.exc_type, (res.exc_msg or '')[:200]),
                                   {'stream': 'cards', 'class': 'exception', 'error': res.exc_type}, replay)])
    okwf, rep = wf(ctx, res.t4)
    if not okwf:
        fails.append(fail('violation', 'file not structurally valid: ' + rep[:400], {'stream': 'cards', 'class': 'not-wellformed'}, replay))
    seen = set()
    for c in cells[:-1]:
        if (c.mat, c.rho) in seen:
            continue
        seen.add((c.mat, c.rho))
        req = '(compmon (mat %d) (dens "%s") (tokens %s))' % (c.mat, c.rho, ' '.join('"%s"' % t for t in cards[c.mat]))
        r = drv.ask('compmon %s %s' % (lean.hx(req), lean.hx(res.t4)))
        if r.startswith('ok problems'):
            fails.append(fail('violation', 'composition of material %d at density %s: %s' % (c.mat, c.rho, lean.unhx(r.split()[2])),
                              {'stream': 'cards', 'class': 'composition-mismatch'}, dict(replay, request=req)))
        elif not r.startswith('ok good'):
            fails.append(fail('infra', 'compmon: ' + r, {'stream': 'cards'}, None))
    return dict(hashes=[key], nontrivial_hashes=[key], dist=dist, sample={'cards': {k: ' '.join(v) for k, v in cards.items()}},
                failures=fails[:5])


def replay(payload, ctx):
    p = payload.get('payload') or {}
    out = {}
    res = impl.convert(p['deck'], [])
    out['exception'] = res.exc_type
    if res.ok and 'request' in p:
        r = ctx['drv'].ask('compmon %s %s' % (lean.hx(p['request']), lean.hx(res.t4)))
        out['compmon'] = lean.unhx(r.split()[2]) if r.startswith('ok problems') else r
        out['violation'] = r.startswith('ok problems')
    return out
