"""C11 — cell expressions denote the Boolean function MCNP assigns to them."""
import itertools
import random

from .common import *  # noqa

ID = 'C11'
LEVEL = 'proof'
RULE = ('streams: parse (get_ast vs Lean parseGeom, exact tree incl. associativity; texts = generated '
        'expressions rendered with random MCNP-legal layouts + an exhaustive small-expression slice + a '
        'malformed stream), normalize (char-level model vs parsegeom.normalize), complement '
        '(pot_complement captured in a real conversion vs Lean potComplement), boolmon (spec monitor: the '
        "generator's AST read the MCNP way vs the converter's post-complement tree on all 2^n sense "
        'assignments, evaluated by the Lean spec), written (the volumes finally written for a deep expression vs the MCNP reading of the card, point monitor). A case is non-trivial when its expression has at least '
        'two operators or a complement; distinct = distinct canonical text / deck.')
NOT_PROVED = ["expressions with '#n' nested under '#( … )' are outside parse_canonical's hypothesis "
              '(u.tree = none): the converter raises AttributeError there (known finding F11)']
ASSUMPTIONS = ['surface number 0 is never referenced', "the characters '_' and '^' (normalize()'s internal markers, not MCNP syntax) do not occur in input expressions", "Python's \\s is modelled as the six ASCII blanks"]


def plan(tier):
    q = tier == 'quick'
    return [
        ('parse', 1500 if q else 20000, {}),
        ('exhaustive', 1 if q else 6, {'leaves': 3 if q else 4}),
        ('malformed', 300 if q else 3000, {}),
        ('complement', 120 if q else 1500, {}),
        ('boolmon', 150 if q else 2500, {}),
        ('written', 150 if q else 2500, {}),
    ]


def search_plan(tier, disagreements):
    return [('boolmon', 600 if tier == 'quick' else 4000, {'search': True}),
            ('parsemon', 1500 if tier == 'quick' else 10000, {}),
            ('written', 600 if tier == 'quick' else 4000, {})]


# ------------------------------------------------------------------ helpers

def py_parse(text):
    from MIP.geom.parsegeom import get_ast
    try:
        return 'ok ' + C.geom_sexp(get_ast(text))
    except AttributeError:
        return 'ok error notInvertible'
    except RecursionError:
        return 'ok error fuel'
    except Exception as e:  # noqa
        n = type(e).__name__
        if 'Parse' in n or 'Fail' in n:
            return 'ok error syntax'
        return 'exc ' + n + ': ' + str(e)[:100]


def long_expr(rng):
    """a long card: 14–26 operands in a row outside any parentheses (literals, small groups, #n), with one or two
    unions among them — the union binds looser than the blank, however long the row is"""
    nsurf = rng.randint(2, 5)
    def operand():
        m = rng.random()
        lit = lambda: ('s', rng.choice([1, -1]) * rng.randint(1, nsurf))  # noqa
        if m < 0.75:
            return lit()
        if m < 0.9:
            return ('u', lit(), lit())
        return ('cc', rng.randint(1, 99)) if rng.random() < 0.5 else ('c', ('i', lit(), lit()))
    n = rng.randint(14, 26)
    ops = [operand() for _ in range(n)]
    cuts = sorted(rng.sample(range(1, n), rng.choice([1, 1, 2])))
    groups, prev = [], 0
    for c_ in cuts + [n]:
        g = ops[prev:c_]
        e = g[0]
        for x in g[1:]:
            e = ('i', e, x)
        groups.append(e)
        prev = c_
    e = groups[0]
    for g in groups[1:]:
        e = ('u', e, g)
    return e


def nested_compl_expr(rng):
    """complements of sub-expressions directly inside one another, the outer one with further content: #(#(1 (2:3)) 4),
    (#(#(1 2) 3)), #(#(1 #(2 3)) -5) — they cancel only when nothing else stands inside the outer one"""
    nsurf = rng.randint(2, 5)
    lit = lambda: ('s', rng.choice([1, -1]) * rng.randint(1, nsurf))  # noqa
    def group():
        m = rng.random()
        if m < 0.4:
            return ('i', lit(), ('u', lit(), lit()))
        if m < 0.7:
            return ('i', lit(), lit())
        if m < 0.85:
            return ('i', lit(), ('c', ('i', lit(), lit())))
        return ('u', ('i', lit(), lit()), lit())
    inner = ('c', group())
    m = rng.random()
    if m < 0.25:
        e = ('c', inner)                                  # cancels
    elif m < 0.75:
        e = ('c', ('i', inner, lit() if rng.random() < 0.6 else ('u', lit(), lit())))
    else:
        e = ('c', ('u', inner, lit()))
    if rng.random() < 0.3:
        e = ('c', e) if rng.random() < 0.3 else ('i', e, lit())
    return e


def gen_expr(rng, allow_nested_cc=False):
    if rng.random() < 0.06:
        return long_expr(rng)
    if rng.random() < 0.06:
        return nested_compl_expr(rng)
    nsurf = rng.randint(1, 5)
    refs = [('s', i) for i in range(1, nsurf + 1)] + [('f', 7, rng.randint(1, 6)), ('f', 8, 1)]
    t = G.gen_bsp(rng, refs, rng.randint(1, 4), 2)
    e = G.region_expr(t, 0, rng)
    if e is None or e is True:
        e = G.signed(rng.choice(refs), rng.random() < .5)
    e = G.obfuscate(e, rng, 0.3)
    if rng.random() < 0.3:
        cc = ('cc', rng.randint(1, 99))
        e = ('i', e, cc) if rng.random() < .5 else ('u', cc, e)
    if allow_nested_cc and rng.random() < 0.5:
        e = ('c', ('i', e, ('cc', rng.randint(1, 99))))
    return e


def nontrivial(e):
    return D.expr_size(e) >= 5 or any(x in repr(e) for x in ("'c'", "'cc'"))


def enum_exprs(nleaves):
    """all expressions with exactly n leaves over a small alphabet (binary shapes × operators × leaves)"""
    leaves = [('s', 1), ('s', -2), ('f', 3, 1), ('cc', 4)]
    if nleaves == 1:
        for l in leaves:
            yield l
        return
    for k in range(1, nleaves):
        for a in enum_exprs(k):
            for b in enum_exprs(nleaves - k):
                yield ('i', a, b)
                yield ('u', a, b)


def wrap_compl(e):
    return ('c', e)


# ------------------------------------------------------------------ case runner

def run_case(stream, seed, ctx, params):
    rng = random.Random(seed)
    drv = ctx['drv']
    if stream in ('parse', 'parsemon'):
        e = gen_expr(rng, allow_nested_cc=(stream == 'parse' and rng.random() < 0.05))
        text = D.render_expr(e, D.Layout(rng, wild=rng.random() < 0.5))
        if rng.random() < 0.3:
            text = rng.choice(['', ' ', '  ']) + text + rng.choice(['', ' ', '   '])
        a = py_parse(text)
        fails = []
        if stream == 'parse':
            from MIP.geom.parsegeom import normalize
            b = drv.ask('parsegeom ' + lean.hx(text))
            nb = lean.unhx(drv.ask('normalize ' + lean.hx(text))[3:])
            try:
                na = normalize(text)
            except Exception as ex:  # noqa
                na = 'EXC %r' % ex
            if na != nb:
                fails.append(fail('disagreement', 'normalize(%r): code %r, model %r' % (text, na, nb),
                                  {'stream': 'normalize'}, {'text': text}))
            if a != b:
                fails.append(fail('disagreement', 'get_ast(%r): code %s, model %s' % (text, a[:300], b[:300]),
                                  {'stream': 'parse'}, {'text': text, 'expr': e}))
        # spec monitor on the parsed tree (no complement of cells: read #c as an opaque atom)
        if a.startswith('ok (') or a.startswith('ok error'):
            v = expr_vs_tree(ctx, e, a, seed)
            if v is not None:
                nested = has_nested_cc(e)
                fails.append(fail('violation', 'expression %r parsed to a tree with a different Boolean function: %s'
                                  % (text, v),
                                  {'stream': 'parse', 'class': 'nested-cc' if nested else 'parse-meaning',
                                   'error': a if a.startswith('ok error') else None},
                                  {'text': text, 'expr': e}))
        return dict(hashes=[h(text)], nontrivial_hashes=[h(text)] if nontrivial(e) else [],
                    dist={'parse:size<=5': D.expr_size(e) <= 5, 'parse:size>5': D.expr_size(e) > 5,
                          'parse:error' if a.startswith('ok error') else 'parse:ok': 1},
                    sample={'text': text, 'code': a[:200]}, failures=fails)
    if stream == 'exhaustive':
        n = params.get('leaves', 3)
        fails = []
        hs = []
        cnt = 0
        lay = D.Layout(rng)
        for k in range(1, n + 1):
            for e0 in enum_exprs(k):
                for e in (e0, ('c', e0)) if 'cc' not in repr(e0) else (e0,):
                    if (cnt + seed) % (1 if n <= 3 else 6) != 0 and n > 3:
                        cnt += 1
                        continue
                    cnt += 1
                    for text in (D.render_expr(e), D.render_expr(e, lay)):
                        a = py_parse(text)
                        b = drv.ask('parsegeom ' + lean.hx(text))
                        hs.append(h(text))
                        if a != b:
                            fails.append(fail('disagreement', 'get_ast(%r): code %s, model %s' % (text, a[:300], b[:300]),
                                              {'stream': 'parse'}, {'text': text, 'expr': e}))
                        v = expr_vs_tree(ctx, e, a, seed)
                        if v is not None:
                            fails.append(fail('violation', 'expression %r: %s' % (text, v),
                                              {'stream': 'parse', 'class': 'parse-meaning'}, {'text': text, 'expr': e}))
        return dict(evaluations=len(hs), hashes=hs, nontrivial_hashes=hs, dist={'exhaustive:texts': len(hs)},
                    sample={'leaves': n, 'texts': len(hs)}, failures=fails[:20])
    if stream == 'malformed':
        e = gen_expr(rng)
        text = D.render_expr(e, D.Layout(rng))
        ops = ['drop', 'dup', 'swap', 'ins']
        cs = list(text)
        for _ in range(rng.randint(1, 2)):
            if not cs:
                break
            i = rng.randrange(len(cs))
            op = rng.choice(ops)
            if op == 'drop':
                del cs[i]
            elif op == 'dup':
                cs.insert(i, cs[i])
            elif op == 'swap' and i + 1 < len(cs):
                cs[i], cs[i + 1] = cs[i + 1], cs[i]
            else:
                cs.insert(i, rng.choice('():#.-+ 0*\t'))
        text = ''.join(cs)
        a = py_parse(text)
        b = drv.ask('parsegeom ' + lean.hx(text))
        fails = []
        if a != b:
            fails.append(fail('disagreement', 'get_ast(%r): code %s, model %s' % (text, a[:300], b[:300]),
                              {'stream': 'parse-malformed'}, {'text': text}))
        return dict(hashes=[h(text)], nontrivial_hashes=[h(text)],
                    dist={'malformed:rejected' if 'error' in a else 'malformed:accepted': 1},
                    sample={'text': text, 'code': a[:120]}, failures=fails)
    if stream == 'written':
        # the expression as it is finally written (EQUA / INTE / UNION volumes of the output file) against the MCNP
        # reading of the card, at sample points: deep expressions over elementary surfaces, surface numbers in the
        # range of the converter's own numbers
        from .geomcommon import run_deck
        d = G.build_flat_deck(rng, macro_p=0.1, imp0_p=0.0, p_obf=0.4, depth=rng.randint(2, 5),
                              nsurf=rng.randint(3, 7), ncells=rng.randint(1, 3))
        if rng.random() < 0.3:
            d2 = G.build_flat_deck(rng, macro_p=0.6, imp0_p=0.0, p_obf=0.3, depth=rng.randint(2, 4),
                                   nsurf=rng.randint(2, 5), ncells=rng.randint(1, 3))
            G.big_surface_ids(d2, rng)
            d = d2
        return run_deck(ctx, stream, d, ['--skip-deduplication'] if rng.random() < 0.5 else [], rng, npts=150,
                        with_comp=False)
    if stream in ('complement', 'boolmon'):
        m_ = rng.random()
        d = (G.complement_chain_deck(rng) if m_ < 0.15 else G.union_complement_deck(rng) if m_ < 0.3
             else G.build_flat_deck(rng, macro_p=0.2, imp0_p=0.1, p_obf=0.3))
        text = D.render_deck(d, D.Layout(rng))
        res, cap = C.convert_capture(text)
        key = h(text)
        nt = [key] if any(nontrivial(c.expr) for c in d.cells) else []
        if not res.ok:
            if is_degenerate(res):
                return None
            return dict(hashes=[key], nontrivial_hashes=nt, dist={stream + ':exception': 1}, sample=None,
                        failures=[fail('violation', 'valid deck rejected: %s: %s' % (res.exc_type, res.exc_msg),
                                       {'stream': stream, 'class': 'exception', 'error': res.exc_type}, {'deck': text})])
        if cap.missing or cap.error or cap.complement_in is None:
            return dict(hashes=[key], nontrivial_hashes=[], dist={stream + ':anchor-missing': 1}, sample=None, failures=[])
        fails = []
        if stream == 'complement':
            resp = drv.ask('complement ' + lean.hx(C.complement_request(cap)))
            exp = 'ok ' + ' '.join('(cell %d %s)' % (k, g) for (k, _, _), g in zip(cap.complement_in, cap.complement_out))
            if resp != exp:
                fails.append(fail('disagreement', 'pot_complement: code %s / model %s' % (exp[:300], resp[:300]),
                                  {'stream': 'complement'}, {'deck': text}))
        else:
            req = '(boolmon (seed %d) (cells %s) (trees %s))' % (
                seed % 100000, ' '.join('(cell %d %s)' % (c.id, D.expr_sexp(c.expr)) for c in d.cells),
                ' '.join('(cell %d %s)' % (k, g) for (k, _, _), g in zip(cap.complement_in, cap.complement_out)))
            resp = drv.ask('boolmon ' + lean.hx(req))
            if resp.startswith('ok mismatch'):
                fails.append(fail('violation', 'converted cell expression differs from MCNP reading: ' + lean.unhx(resp.split()[2]),
                                  {'stream': 'boolmon', 'class': 'bool-meaning'}, {'deck': text, 'request': req}))
            elif not resp.startswith('ok agree'):
                fails.append(fail('infra', 'boolmon: ' + resp, {'stream': 'boolmon'}, None))
        return dict(hashes=[key], nontrivial_hashes=nt,
                    dist={stream + ':cells': len(d.cells), stream + ':with#n': int(any('cc' in repr(c.expr) for c in d.cells))},
                    sample={'deck': text[:600]}, failures=fails)
    raise ValueError(stream)


def has_nested_cc(e, under=False):
    t = e[0]
    if t == 'cc':
        return under
    if t in ('s', 'f'):
        return False
    if t == 'c':
        return has_nested_cc(e[1], True)
    return has_nested_cc(e[1], under) or has_nested_cc(e[2], under)


def expr_vs_tree(ctx, e, parsed, seed):
    """spec monitor for a bare expression: `#c` atoms are given fresh one-surface cells so that the
    Lean Boolean monitor can be reused; returns a mismatch description or None"""
    if not parsed.startswith('ok ('):
        if parsed.startswith('ok error'):
            return 'rejected: ' + parsed
        return None
    # collect #c ids; cell c := surface 900+c
    ccs = sorted(set(x[1] for x in walk(e) if x[0] == 'cc'))
    cells = ['(cell 1000 %s)' % D.expr_sexp(e)] + ['(cell %d (s %d))' % (c, 900 + c) for c in ccs]
    tree = parsed[3:]
    # the parsed tree still has (x c) nodes: substitute by the inverse of the stand-in cell
    for c in ccs:
        tree = tree.replace('(x %d)' % c, '(s -%d)' % (900 + c))
    req = '(boolmon (seed %d) (cells %s) (trees (cell 1000 %s)))' % (seed % 100000, ' '.join(cells), tree)
    resp = ctx['drv'].ask('boolmon ' + lean.hx(req))
    if resp.startswith('ok mismatch'):
        return lean.unhx(resp.split()[2])
    return None


def walk(e):
    yield e
    if e[0] == 'c':
        yield from walk(e[1])
    elif e[0] in ('i', 'u'):
        yield from walk(e[1])
        yield from walk(e[2])


def replay(payload, ctx):
    p = payload.get('payload') or {}
    out = {}
    if 'text' in p:
        out['code'] = py_parse(p['text'])
        out['model'] = ctx['drv'].ask('parsegeom ' + lean.hx(p['text']))
        if 'expr' in p:
            e = tuple_ify(p['expr'])
            out['spec'] = expr_vs_tree(ctx, e, out['code'], 0)
            out['violation'] = out['spec'] is not None
    if 'deck' in p and 'points' in p:
        from .geomcommon import replay_deck
        return replay_deck(payload, ctx)
    if 'deck' in p:
        res, cap = C.convert_capture(p['deck'])
        out['exception'] = res.exc_type
        out['violation'] = not res.ok
    return out


def tuple_ify(x):
    if isinstance(x, list):
        return tuple(tuple_ify(y) for y in x)
    return x
