"""C06 — rectangular lattices: element position, index order and fill array."""
import random

from .geomcommon import *  # noqa
from .. import gen_univ as U

ID = 'C06'
LEVEL = 'proof'
RULE = ('decks whose universes contain LAT=1 cells: 1-, 2-, 3-D orthogonal and skew unit cells, plane pairs in either '
        'order and any pair order, ranges with negative and degenerate bounds (trailing 0:0 ranges included), FILL '
        'arrays containing other universes, the lattice own universe and 0, lattice cells with TRCL and with FILL '
        'transformations (incl. rotations), containers with their own transformations, --lattice with FILL=n. '
        'Streams: monitor (Lean spec lattice rule vs written file), model (Layer-B), helpers (LatticeBounds.indices / '
        'LatticeSpec / parse_ranges vs the Lean model, exhaustive small boxes). Non-trivial = deck has a lattice '
        'with more than one element.')
NOT_PROVED = ['clipping of the lattice elements by the container cell is the C05 theorem (wrap_contains / leaf_inside: new cell = '
              'container ∧ filler), which holds for any cells of the filling universe — after develop_lattice the elements are '
              'such cells; it is not restated with the element regions written out (element (i,j,k) = the unit cell moved by '
              'i·a1 + j·a2 + k·a3): that composition is decided by the latmodel correspondence and the point monitor']
ASSUMPTIONS = ['unit cells are bounded by pairs of parallel planes listed pairwise (MCNP requirement)']


def plan(tier):
    q = tier == 'quick'
    return [('monitor', 340 if q else 3000, {}), ('optlattice', 200 if q else 1500, {}), ('model', 260 if q else 2500, {}),
            ('degenerate', 6 if q else 40, {})]


def search_plan(tier, disagreements):
    return [('monitor', 1000 if tier == 'quick' else 6000, {'npts': 300})]


def _known(d, res):
    if res.exc_type == 'LatticeError' and 'non-trivial bounds' in (res.exc_msg or ''):
        return 'lattice-degenerate-with-trailing'
    return None


def run_case(stream, seed, ctx, params):
    rng = random.Random(seed)
    kind = rng.choice(['rect1', 'rect2', 'rect2', 'rect3', 'skew2', 'tilt2', 'tilt2', 'rppmac', 'boxmac'])
    d = U.build_universe_deck(rng, depth=rng.randint(1, 2), macro_p=0.0, tr_p=0.0, fill_tr_p=0.4, trcl_p=0.2,
                              reuse_p=0.3, lattice_p=0.7, lat_kind=kind, lat_tr_p=0.35, lat_trcl_p=0.25)
    args = random_options(rng)
    if stream == 'degenerate':
        # the configuration of the open finding F21, built on purpose so that every run exercises it: a 2-D lattice
        # whose FILL gives a degenerate range in a real dimension and a trailing 0:0
        d = U.build_universe_deck(rng, depth=1, macro_p=0.0, tr_p=0.0, fill_tr_p=0.0, trcl_p=0.0, reuse_p=0.0,
                                  lattice_p=1.0, lat_kind='rect2', lat_tr_p=0.0, lat_trcl_p=0.0)
        lat = [c for c in d.cells if c.lat and len(c.fill['ranges']) == 2]
        if not lat:
            return None
        c = lat[0]
        us = (c.fill['us'] + [c.fill['us'][0]])[:2]
        c.fill['ranges'] = [(1, 1), (-2, -1), (0, 0)]
        c.fill['us'] = us
    if stream == 'optlattice':
        # FILL=n on lattice cells + --lattice ranges (homogeneous fill)
        lat = [c for c in d.cells if c.lat]
        if not lat:
            return None
        for c in lat:
            us = [u for u in c.fill['us'] if u not in (0, c.u)]
            u0 = us[0] if us else c.u
            if u0 == c.u:
                return None
            c.fill['us'] = [u0] * len(c.fill['us'])
            c.hints['fill_by_option'] = True
            d.lattice_opts.append('%d,%s' % (c.id, ','.join('%d:%d' % r for r in c.fill['ranges'])))
            if len(c.fill['ranges']) > 3:
                return None
        if rng.random() < 0.5:
            # a copy of a lattice cell written LIKE n BUT U=…, with --lattice ranges of its own: the ranges of the
            # copy are those given for the number of the copy, not those of cell n
            import copy
            base = rng.choice(lat)
            u2 = max(c.u for c in d.cells) + rng.choice([1, 3])
            ranges = []
            for lo, hi in base.fill['ranges']:
                if hi == lo and len(base.fill['ranges']) > 1:
                    ranges.append((lo, hi))
                else:
                    lo2 = lo + rng.choice([-1, 0, 1, 2])
                    ranges.append((lo2, lo2 + rng.choice([0, 1, 2])))
            if all(a == b for a, b in ranges):
                ranges[0] = (ranges[0][0], ranges[0][0] + 1)
            n_el = 1
            for lo, hi in ranges:
                n_el *= hi - lo + 1
            c2 = D.Cell(max(c.id for c in d.cells) + 1, base.expr, mat=base.mat, rho=base.rho, imp=base.imp, u=u2,
                        fill={'ranges': ranges, 'us': [base.fill['us'][0]] * n_el, 'tr': copy.deepcopy(base.fill.get('tr'))},
                        lat=base.lat, trcl=base.trcl)
            for k in ('fill_num', 'fill_star', 'trcl_num', 'trcl_star', 'fill_by_option'):
                if k in base.hints:
                    c2.hints[k] = base.hints[k]
            c2.hints['raw'] = '%d %s %d %s u=%d' % (c2.id, rng.choice(['like', 'LIKE']), base.id, rng.choice(['but', 'BUT']), u2)
            d.lattice_opts.append('%d,%s' % (c2.id, ','.join('%d:%d' % r for r in ranges)))
            hosts = [c for c in d.cells if c.u == 0 and c.fill is None and c.imp != 0] or \
                    [c for c in d.cells if c.fill is not None and c.fill.get('u') == base.u]
            if hosts:
                host = rng.choice(hosts)
                host.mat, host.rho = 0, None
                host.fill = {'u': u2, 'tr': host.fill.get('tr') if host.fill else None}
                d.cells.append(c2)
    r = run_deck(ctx, stream, d, args, rng, npts=params.get('npts', 150), check_model=(stream == 'model' or getattr(d, '_tiny_tilt', False)),
                 known_classes=_known)
    if r is not None and not any(c.lat and len(c.fill['us']) > 1 for c in d.cells):
        r['nontrivial_hashes'] = []
    return r


replay = replay_deck
