"""C06 — rectangular lattices: element position, index order and fill array."""
import random

from .geomcommon import *  # noqa
from .. import gen_univ as U

ID = 'C06'
LEVEL = 'proof'
RULE = ('decks whose universes contain LAT=1 cells: 1-, 2-, 3-D orthogonal and skew unit cells, plane pairs in either '
        'order and any pair order, ranges with negative and degenerate bounds (trailing 0:0 ranges included), FILL '
        'arrays containing other universes, the lattice own universe and 0, lattice cells with TRCL and with FILL '
        'transformations (incl. rotations), containers with their own transformations, --lattice with FILL=n. '
        'Streams: monitor (Lean spec lattice rule vs written file), model (Layer-B), helpers (LatticeBounds.indices / '
        'LatticeSpec / parse_ranges vs the Lean model, exhaustive small boxes). Non-trivial = deck has a lattice '
        'with more than one element.')
NOT_PROVED = ['clipping of the lattice elements by the container cell is the C05 theorem (wrap_contains / leaf_inside: new cell = '
              'container ∧ filler), which holds for any cells of the filling universe — after develop_lattice the elements are '
              'such cells; it is not restated with the element regions written out (element (i,j,k) = the unit cell moved by '
              'i·a1 + j·a2 + k·a3): that composition is decided by the latmodel correspondence and the point monitor']
ASSUMPTIONS = ['unit cells are bounded by pairs of parallel planes listed pairwise (MCNP requirement)']


def plan(tier):
    q = tier == 'quick'
    return [('monitor', 200 if q else 3000, {}), ('optlattice', 60 if q else 600, {}), ('model', 50 if q else 800, {}),
            ('degenerate', 6 if q else 40, {})]


def search_plan(tier, disagreements):
    return [('monitor', 1000 if tier == 'quick' else 6000, {'npts': 300})]


def _known(d, res):
    if res.exc_type == 'LatticeError' and 'non-trivial bounds' in (res.exc_msg or ''):
        return 'lattice-degenerate-with-trailing'
    return None


def run_case(stream, seed, ctx, params):
    rng = random.Random(seed)
    kind = rng.choice(['rect1', 'rect2', 'rect2', 'rect3', 'skew2'])
    d = U.build_universe_deck(rng, depth=rng.randint(1, 2), macro_p=0.0, tr_p=0.0, fill_tr_p=0.4, trcl_p=0.2,
                              reuse_p=0.3, lattice_p=0.7, lat_kind=kind, lat_tr_p=0.35, lat_trcl_p=0.25)
    args = random_options(rng)
    if stream == 'degenerate':
        # the configuration of the open finding F21, built on purpose so that every run exercises it: a 2-D lattice
        # whose FILL gives a degenerate range in a real dimension and a trailing 0:0
        d = U.build_universe_deck(rng, depth=1, macro_p=0.0, tr_p=0.0, fill_tr_p=0.0, trcl_p=0.0, reuse_p=0.0,
                                  lattice_p=1.0, lat_kind='rect2', lat_tr_p=0.0, lat_trcl_p=0.0)
        lat = [c for c in d.cells if c.lat and len(c.fill['ranges']) == 2]
        if not lat:
            return None
        c = lat[0]
        us = (c.fill['us'] + [c.fill['us'][0]])[:2]
        c.fill['ranges'] = [(1, 1), (-2, -1), (0, 0)]
        c.fill['us'] = us
    if stream == 'optlattice':
        # FILL=n on lattice cells + --lattice ranges (homogeneous fill)
        lat = [c for c in d.cells if c.lat]
        if not lat:
            return None
        for c in lat:
            us = [u for u in c.fill['us'] if u not in (0, c.u)]
            u0 = us[0] if us else c.u
            if u0 == c.u:
                return None
            c.fill['us'] = [u0] * len(c.fill['us'])
            c.hints['fill_by_option'] = True
            d.lattice_opts.append('%d,%s' % (c.id, ','.join('%d:%d' % r for r in c.fill['ranges'])))
            if len(c.fill['ranges']) > 3:
                return None
    r = run_deck(ctx, stream, d, args, rng, npts=params.get('npts', 150), check_model=(stream == 'model'),
                 known_classes=_known)
    if r is not None and not any(c.lat and len(c.fill['us']) > 1 for c in d.cells):
        r['nontrivial_hashes'] = []
    return r


replay = replay_deck
