"""C01 — cell regions: every point stays in the volume of the cell that owns it."""
import random

from .geomcommon import *  # noqa

ID = 'C01'
LEVEL = 'proof'
RULE = ('decks without universes whose cells partition space by construction (random BSP over 1–6 surfaces of every '
        'elementary kind and macrobody, grouped into 1–5 cells, then obfuscated with redundant parentheses, De Morgan '
        "complements '#( … )', '#n' of other cells, repeated surfaces; some cells have zero importance). Streams: "
        'monitor (Lean spec: MCNP point location vs owners in the written .t4, ~120 points per deck, composition '
        'included, structural validity of the file) and model (Lean Layer-B model vs code on pot_complement, the '
        'conversion loop and the post-processing, canonical volume terms). Non-trivial = at least two cells; '
        'distinct = distinct (deck text, options).')
NOT_PROVED = ['the link surface senses ↔ geometry (surfValOf / GeomLaws) is the subject of C02–C04',
              'universes/FILL/lattices (C05–C07) and the text layer (C11, C14) are outside these theorems: the point monitor '
              'covers them end to end']
ASSUMPTIONS = ['sample points closer than 1e-6 (in |f|) to a surface are skipped']


def plan(tier):
    q = tier == 'quick'
    return [('monitor', 250 if q else 5000, {}), ('model', 150 if q else 3000, {})]


def search_plan(tier, disagreements):
    return [('monitor', 1500 if tier == 'quick' else 10000, {'npts': 400})]


def run_case(stream, seed, ctx, params):
    rng = random.Random(seed)
    m_ = rng.random()
    if m_ < 0.1:
        d = G.complement_chain_deck(rng)
    elif m_ < 0.18:
        d = G.union_complement_deck(rng)
    elif m_ < 0.26:
        d = G.twin_block_deck(rng)
    else:
        d = G.build_flat_deck(rng, macro_p=0.25, tr_p=0.15 if rng.random() < 0.3 else 0.0)
        D.vary_cards(d, rng)
    args = ['--skip-deduplication'] if rng.random() < 0.3 else []
    return run_deck(ctx, stream, d, args, rng, npts=params.get('npts', 120), check_model=(stream == 'model'))


replay = replay_deck
