"""Abstract MCNP decks (the generator's view = the spec's `Deck` type), their S-expression
encoding for the Lean spec evaluators, and their rendering to MCNP text."""
import math
import random

# expression AST: ('s', n) signed int | ('f', n, k) facet | ('cc', cell) | ('c', e) | ('i', a, b) | ('u', a, b)


def fnum(x):
    """float → decimal text that round-trips exactly"""
    if isinstance(x, int):
        return str(x)
    return repr(float(x))


class Motion:
    """12 numbers of an MCNP transformation: origin + B1..B9 (cosines)."""
    def __init__(self, o, b):
        self.o = [float(v) for v in o]
        self.b = [float(v) for v in b]

    def nums(self):
        return self.o + self.b

    def sexp(self, tag):
        return '(%s %s)' % (tag, ' '.join(fnum(v) for v in self.nums()))

    def is_translation(self):
        return self.b == [1, 0, 0, 0, 1, 0, 0, 0, 1]

    def to_main(self, q):
        b = self.b
        x = self.o[0] + b[0] * q[0] + b[3] * q[1] + b[6] * q[2]
        y = self.o[1] + b[1] * q[0] + b[4] * q[1] + b[7] * q[2]
        z = self.o[2] + b[2] * q[0] + b[5] * q[1] + b[8] * q[2]
        return (x, y, z)


IDENT = [1.0, 0, 0, 0, 1.0, 0, 0, 0, 1.0]


class Surf:
    def __init__(self, id, mn, ps, tr=None, bc='', trnum=None):
        self.id = id
        self.mn = mn.lower()
        self.ps = list(ps)
        self.tr = tr          # Motion or None
        self.trnum = trnum    # number of the TR card that spells it
        self.bc = bc

    def sexp(self):
        s = '(surf %d %s (ps %s)' % (self.id, self.mn, ' '.join(fnum(p) for p in self.ps))
        if self.tr is not None:
            s += ' ' + self.tr.sexp('tr')
        if self.bc:
            s += ' (bc %s)' % self.bc
        return s + ')'


class Cell:
    def __init__(self, id, expr, mat=0, rho=None, imp=1, u=0, fill=None, lat=None, trcl=None):
        self.id = id
        self.expr = expr
        self.mat = mat
        self.rho = rho        # density literal as written (str) or None
        self.imp = imp
        self.u = u
        self.fill = fill      # None | dict(u=.., tr=Motion|None) | dict(ranges=[(lo,hi)..], us=[..], tr=..)
        self.lat = lat
        self.trcl = trcl      # Motion or None
        # rendering hints (do not change the meaning)
        self.hints = {}

    def sexp(self):
        s = '(cell %d (geom %s)' % (self.id, expr_sexp(self.expr))
        s += ' (mat %d %s)' % (self.mat, 'void' if self.rho is None else '"%s"' % self.rho)
        s += ' (imp %d)' % (0 if self.imp == 0 else 1)
        s += ' (u %d)' % self.u
        if self.trcl is not None:
            s += ' ' + self.trcl.sexp('trcl')
        if self.lat is not None:
            s += ' (lat %d)' % self.lat
        if self.fill is not None:
            f = self.fill
            if 'ranges' in f:
                s += ' (fill (ranges %s) (us %s)' % (
                    ' '.join('(%d %d)' % r for r in f['ranges']), ' '.join(str(u) for u in f['us']))
            else:
                s += ' (fill %d' % f['u']
            if f.get('tr') is not None:
                s += ' ' + f['tr'].sexp('tr')
            s += ')'
        return s + ')'


def expr_sexp(e):
    t = e[0]
    if t == 's':
        return '(s %d)' % e[1]
    if t == 'f':
        return '(f %d %d)' % (e[1], e[2])
    if t == 'cc':
        return '(cc %d)' % e[1]
    if t == 'c':
        return '(c %s)' % expr_sexp(e[1])
    return '(%s %s %s)' % (t, expr_sexp(e[1]), expr_sexp(e[2]))


def expr_leaves(e):
    t = e[0]
    if t in ('s', 'f'):
        return [e]
    if t == 'cc':
        return []
    if t == 'c':
        return expr_leaves(e[1])
    return expr_leaves(e[1]) + expr_leaves(e[2])


def expr_map_surfs(e, m):
    """the expression with surface number n replaced by m[n] (signs kept)"""
    t = e[0]
    if t == 's':
        return ('s', (1 if e[1] > 0 else -1) * m[abs(e[1])])
    if t == 'f':
        return ('f', (1 if e[1] > 0 else -1) * m[abs(e[1])], e[2])
    if t == 'cc':
        return e
    if t == 'c':
        return ('c', expr_map_surfs(e[1], m))
    return (t, expr_map_surfs(e[1], m), expr_map_surfs(e[2], m))


def expr_size(e):
    t = e[0]
    if t in ('s', 'f', 'cc'):
        return 1
    if t == 'c':
        return 1 + expr_size(e[1])
    return 1 + expr_size(e[1]) + expr_size(e[2])


def expr_eval(e, surf, cellin):
    """surf(n, k) -> bool positive sense; cellin(c) -> bool"""
    t = e[0]
    if t == 's':
        b = surf(abs(e[1]), None)
        return b if e[1] > 0 else not b
    if t == 'f':
        b = surf(abs(e[1]), e[2])
        return b if e[1] > 0 else not b
    if t == 'cc':
        return not cellin(e[1])
    if t == 'c':
        return not expr_eval(e[1], surf, cellin)
    if t == 'i':
        return expr_eval(e[1], surf, cellin) and expr_eval(e[2], surf, cellin)
    return expr_eval(e[1], surf, cellin) or expr_eval(e[2], surf, cellin)


class Layout:
    """Rendering choices for a cell expression; all of them are MCNP-insignificant."""
    def __init__(self, rng=None, wild=False):
        self.rng = rng
        self.wild = wild
        # where long cards are continued: mostly before column 80, now and then only near MCNP6's limit of 128 columns
        # (a line of 81–128 columns is as valid as a wrapped one)
        self.width = 78
        if rng is not None:
            m = rng.random()
            self.width = 78 if m < 0.85 else 100 if m < 0.93 else 124

    def sp(self, mandatory=False):
        if self.rng is None:
            return ' ' if mandatory else ''
        lo = 1 if mandatory else 0
        if not self.wild:
            return ' ' * self.rng.choice([lo, lo, 1, 2])
        return ' ' * self.rng.choice([lo, lo, 1, 2, 3])

    def coin(self, p):
        return self.rng is not None and self.rng.random() < p


def render_expr(e, lay=None, prec=0):
    """prec: 0 = union level, 1 = intersection level, 2 = operand level"""
    lay = lay or Layout()
    t = e[0]
    if t == 's':
        n = e[1]
        txt = ('+' if (n > 0 and lay.coin(0.15)) else '') + str(n)
    elif t == 'f':
        n, k = e[1], e[2]
        txt = ('+' if (n > 0 and lay.coin(0.15)) else '') + '%d.%d' % (n, k)
    elif t == 'cc':
        txt = '#' + lay.sp() + str(e[1])
    elif t == 'c':
        txt = '#' + lay.sp() + '(' + lay.sp() + render_expr(e[1], lay, 0) + lay.sp() + ')'
    elif t == 'i':
        # left-assoc: right operand of an intersection must be at operand level if it is an intersection
        a = render_expr(e[1], lay, 1)
        b = render_expr(e[2], lay, 2 if e[2][0] in ('i',) else 1)
        # a blank is needed only between two literals / a cell number and a literal: `(1:2)-3`, `-1(2:3)`, `2#(3)`, `)#4`
        # are legal without one
        need = not (a.endswith(')') or b[0] in '(#')
        txt = a + lay.sp(need) + b
        if prec > 1:
            txt = '(' + lay.sp() + txt + lay.sp() + ')'
    else:
        a = render_expr(e[1], lay, 0)
        b = render_expr(e[2], lay, 1 if e[2][0] == 'u' else 0)
        if e[2][0] == 'u':
            b = '(' + lay.sp() + render_expr(e[2], lay, 0) + lay.sp() + ')'
        txt = a + lay.sp() + ':' + lay.sp() + b
        if prec > 0:
            txt = '(' + lay.sp() + txt + lay.sp() + ')'
    if t in ('s', 'f', 'cc') and lay.coin(0.08):
        txt = '(' + lay.sp() + txt + lay.sp() + ')'
    return txt


class Deck:
    def __init__(self, title='generated deck'):
        self.title = title
        self.surfs = []
        self.cells = []
        self.trs = {}          # number -> (Motion, spelling dict)
        self.mats = {}         # number -> list of (zaid, fraction-literal)
        self.imp_cards = None  # None: importances on cell cards; else {'n': [...tokens...]}
        self.extra_data = []
        self.lattice_opts = []  # --lattice strings

    def sexp(self):
        return '(deck %s %s)' % (' '.join(s.sexp() for s in self.surfs), ' '.join(c.sexp() for c in self.cells))

    def cell(self, id):
        for c in self.cells:
            if c.id == id:
                return c
        return None


def vary_cards(d, rng, p_shuffle=0.35, p_impcard=0.3):
    """MCNP-insignificant card-level choices made on the abstract deck: the order of the cell cards (any order, not
    only ascending numbers) and importances given by an IMP:N data card (entries in cell-card order) instead of
    imp:n= on the cards"""
    if d.imp_cards is not None or any(c.hints.get('raw') is not None for c in d.cells):
        return d
    if rng.random() < p_shuffle:
        rng.shuffle(d.cells)
    if rng.random() < p_impcard:
        d.imp_cards = {'n': [str(int(c.imp)) if c.imp == int(c.imp) and rng.random() < 0.6 else fnum(float(c.imp))
                             for c in d.cells]}
    return d


def star_angles(bs):
    """the angles (degrees) of a starred card; every angle is spelled as one of θ, -θ, 360-θ, θ-360 (same cosine),
    chosen deterministically from the entry so that a deck renders the same way every time"""
    out = []
    for i, c in enumerate(bs):
        th = math.degrees(math.acos(max(-1.0, min(1.0, c))))
        k = (i + int(round(th * 7))) % 4
        out.append([th, -th, 360.0 - th, th - 360.0][k] + 0.0)
    return out


def tr_card(num, m, starred=False):
    if starred:
        nums = m.o + star_angles(m.b)
        return '*tr%d %s' % (num, ' '.join(fnum(v) for v in nums))
    return 'tr%d %s' % (num, ' '.join(fnum(v) for v in m.nums()))


def inline_tr(m, starred=False):
    if m.is_translation() and not starred:
        return ' '.join(fnum(v) for v in m.o)
    if starred:
        nums = m.o + star_angles(m.b)
    else:
        nums = m.nums()
    return ' '.join(fnum(v) for v in nums)


def render_cell(c, lay=None, with_imp=True):
    h = c.hints
    if c.mat == 0:
        head = '%d 0' % c.id
    else:
        head = '%d %d %s' % (c.id, c.mat, c.rho)
    txt = head + '  ' + render_expr(c.expr, lay)
    opts = []
    if with_imp:
        if c.hints.get('imp_text'):
            opts.append(c.hints['imp_text'])      # several particles: imp:n,p=… / imp:n=… imp:p=…
        else:
            opts.append('imp:n=%s' % fnum(c.imp) if not isinstance(c.imp, str) else 'imp:n=%s' % c.imp)
    if c.u:
        # `neg_u`: MCNP's "not truncated by the container" spelling u=-n (the converter does not match it with FILL=n)
        opts.append('u=%d' % (-c.u if h.get('neg_u') else c.u))
    if c.trcl is not None:
        if h.get('trcl_num') is not None:
            opts.append('trcl=%d' % h['trcl_num'])
        elif h.get('trcl_star'):
            opts.append('*trcl=(%s)' % inline_tr(c.trcl, True))
        else:
            opts.append('trcl=(%s)' % inline_tr(c.trcl))
    if c.lat is not None:
        opts.append('lat=%d' % c.lat)
    if c.fill is not None:
        f = c.fill
        star = ''
        trtxt = ''
        if f.get('tr') is not None:
            if h.get('fill_num') is not None:
                trtxt = ' (%d)' % h['fill_num']
            elif h.get('fill_star'):
                star = '*'
                trtxt = ' (%s)' % inline_tr(f['tr'], True)
            else:
                trtxt = ' (%s)' % inline_tr(f['tr'])
        if 'ranges' in f and not h.get('fill_by_option'):
            rg = ' '.join('%d:%d' % r for r in f['ranges'])
            opts.append('%sfill=%s %s%s' % (star, rg, ' '.join(str(u) for u in f['us']), trtxt))
        elif 'ranges' in f:
            opts.append('%sfill=%d%s' % (star, f['us'][0], trtxt))
        else:
            opts.append('%sfill=%d%s' % (star, f['u'], trtxt))
    return txt + ('  ' + ' '.join(opts) if opts else '')


def render_surf(s, lay=None):
    name = s.bc + str(s.id)
    tr = (' %d' % s.trnum) if s.trnum is not None else ''
    ps = [fnum(p) for p in s.ps]
    if lay is not None and lay.rng is not None and lay.coin(0.5):
        # Fortran spellings of the same numbers (-0.5 → -.5, 5-1, -0.5d0 …): MCNP-insignificant
        from .restyle import respell_number
        ps = [respell_number(t, lay.rng) if lay.coin(0.4) else t for t in ps]
    return '%s%s %s %s' % (name, tr, s.mn, ' '.join(ps))


def wrap_card(line, width=78, lay=None):
    """split a long card into continuation lines (5 leading blanks); with a layout, the card may start anywhere in
    columns 1–5 (one to four leading blanks), which MCNP allows"""
    if lay is not None and lay.rng is not None and lay.coin(0.15):
        line = ' ' * lay.rng.randint(1, 4) + line
    if lay is not None and width == 78:
        width = getattr(lay, 'width', 78)
    if len(line) <= width:
        return line
    lead = len(line) - len(line.lstrip(' '))
    words = [w for w in line.strip().split(' ')]
    if lead:
        words[0] = ' ' * lead + words[0]
    while words and words[-1] == '':
        words.pop()
    lines = []
    cur = ''
    for w in words:
        # never emit a line of blanks only: MCNP reads it as the blank-line delimiter of the block
        if cur.strip() and len(cur) + 1 + len(w) > width:
            lines.append(cur)
            cur = '      ' + w
        else:
            cur = w if not cur else cur + ' ' + w
    if cur.strip():
        lines.append(cur)
    return '\n'.join(lines)


def render_deck(d, lay=None, imp_on_cards=None):
    if imp_on_cards is None:
        imp_on_cards = d.imp_cards is None
    out = [d.title]
    for c in d.cells:
        if c.hints.get('raw') is not None:
            out.append(wrap_card(c.hints['raw'], width=getattr(lay, 'width', 78) if lay is not None else 78))
        else:
            out.append(wrap_card(render_cell(c, lay, with_imp=imp_on_cards), lay=lay))
    out.append('')
    for s in d.surfs:
        out.append(wrap_card(render_surf(s, lay), lay=lay))
    out.append('')
    for num, (m, sp) in d.trs.items():
        out.append(wrap_card(tr_card(num, m, sp.get('star', False)) if 'raw' not in sp else sp['raw'], lay=lay))
    for num, comp in d.mats.items():
        out.append(wrap_card('m%d %s' % (num, ' '.join(('%s %s' % (z, f)).strip() for z, f in comp)), lay=lay))
    if d.imp_cards:
        for part, toks in d.imp_cards.items():
            out.append(wrap_card('imp:%s %s' % (part, ' '.join(toks)), lay=lay))
    out.extend(d.extra_data)
    out.append('')
    return '\n'.join(out)
