"""Lattice universes (LAT=1 rectangular incl. skew, LAT=2 hexagonal) for the deck generators."""
import math
from . import deck as D
from . import gen_geom as G


def _plane_surf(d, n, off, rng=None, flip_p=0.25, carry=None):
    """add a plane card n·x = off choosing the most specific mnemonic; returns the surface id times the sign to
    give it so that the reference means what `sid` would mean for the normal `n` (the card is sometimes written
    with the opposite normal, -n·x = -off, which exchanges the two sides)"""
    sid = max([s.id for s in d.surfs], default=0) + 1
    if carry is not None:
        # the plane written as `sid n px c` with a TR card of its own: rotation taking the x axis to the normal (about
        # the direction `carry[0]`, a coordinate axis normal to n) and a displacement along that direction
        axis, shift = carry
        mvec = G.cross(axis, n)
        o = [shift * a for a in axis]
        mo = D.Motion(o, list(n) + mvec + list(axis))
        num = max(d.trs, default=0) + 1
        d.trs[num] = (mo, {'star': False, 'cls': 'generic'})
        d.surfs.append(D.Surf(sid, 'px', [off - sum(a * b for a, b in zip(n, o))], tr=mo, trnum=num))
        return sid
    if rng is not None and rng.random() < flip_p:
        d.surfs.append(D.Surf(sid, 'p', [-x + 0.0 for x in n] + [-off + 0.0]))
        return -sid
    ax = [i for i in range(3) if n[i] != 0]
    if len(ax) == 1 and n[ax[0]] == 1.0:
        d.surfs.append(D.Surf(sid, ['px', 'py', 'pz'][ax[0]], [off]))
    else:
        d.surfs.append(D.Surf(sid, 'p', list(n) + [off]))
    return sid


def add_lattice_universe(d, rng, u, next_id, new_universe, kind=None, lat_tr_p=0.0, lat_trcl_p=0.0, rot_classes=None,
                         big_p=0.0):
    """universe `u` := one lattice cell; elements filled with fresh universes / own universe / 0"""
    kind = kind or rng.choice(['rect1', 'rect2', 'rect2', 'rect3', 'skew2', 'tilt2', 'hex', 'hex3'])
    cell_id = next_id[0]
    next_id[0] += rng.choice([1, 2])
    centre = [rng.choice(G.HALF) / 2 for _ in range(3)]
    if kind in ('rppmac', 'boxmac', 'rhpmac'):
        # the unit cell is one macrobody: its facets, in the order of their numbers, are the listed surfaces
        sid = max([s_.id for s_ in d.surfs], default=0) + 1
        if kind == 'rppmac':
            w = [rng.choice([1.0, 1.5, 2.0]) for _ in range(3)]
            ps = [v for i in range(3) for v in (centre[i] - w[i], centre[i] + w[i])]
            d.surfs.append(D.Surf(sid, 'rpp', ps))
        elif kind == 'boxmac':
            a, b, cc = G.ortho_triple(rng)
            a, b, cc = G.scale(a, rng.choice([1., .5])), G.scale(b, rng.choice([1., .5])), G.scale(cc, rng.choice([1., .5]))
            d.surfs.append(D.Surf(sid, 'box', list(centre) + a + b + cc))
        else:
            mn, ps = G.macrobody(rng, ['rhp9', 'rhp9', 'rhp15', 'hex'], irregular=False)
            d.surfs.append(D.Surf(sid, mn, list(centre) + ps[3:]))
        leaves = [('s', -sid)]
        dim = 3
    elif kind.startswith('rect') or kind in ('skew2', 'tilt2'):
        dim = {'rect1': 1, 'rect2': 2, 'rect3': 3, 'skew2': 2, 'tilt2': 2}[kind]
        if kind == 'skew2':
            normals = rng.choice([([2., -1., 0.], [0., 1., 0.]), ([1., 0., 0.], [1., 2., 0.]), ([1., 1., 0.], [0., 0., 1.])])
        elif kind == 'tilt2':
            # two pairs of planes whose common direction (the axis of the infinite prism) is not a coordinate axis
            normals = rng.choice([([.6, 0., .8], [0., 1., 0.]), ([0., .6, .8], [1., 0., 0.]), ([.6, .8, 0.], [0., 0., 1.]),
                                  ([.6, 0., .8], [.8, 0., -.6]), ([1., 1., 0.], [0., 0., 1.]), ([.6, .8, 0.], [1., 0., 0.])])
        else:
            axes = rng.sample([0, 1, 2], dim)
            normals = []
            for a in axes:
                n = [0., 0., 0.]
                n[a] = 1.0
                normals.append(n)
        if kind.startswith('rect') and rng.random() < 0.4:
            # the whole cell turned by a degree or two (a core map digitised from a drawing, a slightly rotated
            # assembly): general planes whose normals are nearly, not exactly, coordinate axes
            ang = math.radians(rng.choice([0.5, 1.0, 2.0, -1.5, 0.05, -0.03, 0.06, -0.04, 0.02, -0.07]))
            ax = rng.randrange(3)
            i1, i2 = [(1, 2), (2, 0), (0, 1)][ax]

            def turn(n):
                out = list(n)
                out[i1] = math.cos(ang) * n[i1] - math.sin(ang) * n[i2]
                out[i2] = math.sin(ang) * n[i1] + math.cos(ang) * n[i2]
                return out
            normals = [turn(n) for n in normals]
            if abs(ang) < 2e-3:
                d._tiny_tilt = True
        refs = []
        rshared = getattr(d, '_rect_shared', None) if kind.startswith('rect') and rng.random() < 0.4 else None
        if rshared is not None and rshared[0] == dim:
            # a later lattice of the deck bounded by the very same planes, listed in another order (pairs exchanged,
            # a pair turned round): the indices then grow along other directions
            refs = [list(pair) for pair in rshared[1]]
            centre = list(rshared[2])
            while True:
                rng.shuffle(refs)
                for pair in refs:
                    if rng.random() < 0.5:
                        pair.reverse()
                if refs != [list(pair) for pair in rshared[1]]:
                    break
            normals = []
        for n in normals:
            c0 = sum(a * b for a, b in zip(n, centre))
            w = rng.choice([1.0, 1.5, 2.0])
            hi = _plane_surf(d, n, c0 + w, rng)
            lo = _plane_surf(d, n, c0 - w, rng)
            # (first-listed, second-listed): either order; cell is between: -hi +lo
            pair = [('s', -hi), ('s', lo)]
            if rng.random() < 0.5:
                pair.reverse()
            refs.append(pair)
        if normals and rng.random() < 0.4:
            rng.shuffle(refs)
        if normals and kind.startswith('rect'):
            d._rect_shared = (dim, [list(pair) for pair in refs], list(centre))
        leaves = [r for pair in refs for r in pair]
    else:
        # hexagonal prism: three pairs of planes at 60°, optional top/bottom
        rr = rng.choice([1.0, 1.5, 2.0, 2.5])
        s3 = math.sqrt(3.0)
        # two axial zones of one pin lattice: a later 3-D hexagonal lattice of the deck is sometimes bounded by the very
        # same six side planes (same cards, same order and senses) and closed by planes of its own
        shared = getattr(d, '_hex_shared', None) if kind == 'hex3' and rng.random() < 0.5 else None
        # orientation, listing order and senses come from a generator of their own, which a later hexagonal lattice of
        # the same deck takes over half of the time: prisms that differ in size only
        import random as _random
        oseed = getattr(d, '_hex_oseed', None)
        if oseed is None or rng.random() < 0.5:
            oseed = rng.getrandbits(32)
            d._hex_oseed = oseed
        orng = _random.Random(oseed)
        perm = orng.choice([(0, 1, 2), (1, 2, 0), (2, 0, 1)])

        def P(v):
            out = [0.0, 0.0, 0.0]
            for i, j in enumerate(perm):
                out[j] = v[i]
            return out
        dirs = [P([1.0, 0.0, 0.0]), P([0.5, s3 / 2, 0.0]), P([-0.5, s3 / 2, 0.0])]
        pairs = []
        # some of the side planes written as transformed PX planes, each pair with a TR card of its own that also shifts
        # along the axis of the prism (a no-op for these planes): not all the planes carry the same transformation
        carried = set(rng.sample([0, 1, 2], rng.choice([1, 2]))) if rng.random() < 0.5 else set()
        axis_v = P([0.0, 0.0, 1.0])
        for i_dir, n in enumerate([] if shared else dirs):
            c0 = sum(a * b for a, b in zip(n, centre))
            carry = (axis_v, rng.choice([1.5, -2.0, 3.0])) if i_dir in carried else None
            hi = _plane_surf(d, n, c0 + rr, orng, carry=carry)
            lo = _plane_surf(d, n, c0 - rr, orng, carry=carry)
            pairs.append([('s', -hi), ('s', lo)])
        # MCNP order: side 1, its opposite, side 2 (adjacent choice), its opposite, the last two in any order
        if shared:
            leaves, perm, centre, h0, z0 = list(shared[0]), shared[1], list(shared[2]), shared[3], shared[4]
        else:
            first = orng.randrange(3)
            p1 = pairs[first]
            others = [pairs[i] for i in range(3) if i != first]
            orng.shuffle(others)
            p2, p3 = others
            for p in (p1, p2, p3):
                if orng.random() < 0.5:
                    p.reverse()
            if orng.random() < 0.5:
                p3 = list(reversed(p3))
            leaves = p1 + p2 + p3
        dim = 2
        if kind == 'hex3':
            n = P([0.0, 0.0, 1.0])
            c0 = sum(a * b for a, b in zip(n, centre))
            h = rng.choice([1.0, 2.0])
            if shared:
                h = rng.choice([x for x in (0.75, 1.0, 2.0, 3.0) if x != h0])
                c0 = z0 + rng.choice([1, -1]) * (h0 + h)          # the zone above or below the first one
            else:
                d._hex_shared = (list(leaves), perm, list(centre), h, c0)
            hi = _plane_surf(d, n, c0 + h, rng)
            lo = _plane_surf(d, n, c0 - h, rng)
            pz = [('s', -hi), ('s', lo)]
            if rng.random() < 0.5:
                pz.reverse()
            leaves += pz
            dim = 3
    e = leaves[0]
    for l in leaves[1:]:
        e = ('i', e, l)
    # ranges: small, possibly negative / degenerate
    ranges = []
    for k in range(dim):
        lo = rng.randint(-2, 1)
        hi = lo + rng.choice([0, 1, 1, 2])
        ranges.append((lo, hi))
    if dim < 3 and rng.random() < 0.3:
        # trailing trivial ranges are tolerated by the converter only when every real dimension has a
        # non-degenerate range (known finding F21 otherwise)
        ranges = [(lo, hi if hi > lo else lo + 1) for lo, hi in ranges]
        ranges += [(0, 0)] * rng.randint(1, 3 - dim)
    pool = [u, 0]
    for _ in range(rng.randint(1, 2)):
        v = new_universe()
        if v is not None:
            pool.append(v)
    if len(pool) == 2:
        pool.append(u)
        if big_p and rng.random() < big_p and not getattr(d, '_big_lattice', False):
            # now and then ONE lattice of some size (25–50 elements): long GEOMCOMP / VOLU lists, many generated
            # cells.  Only at the innermost level (every element is the lattice cell's own material or void): a
            # big lattice of filled universes multiplies the conversion time beyond what one case may take
            d._big_lattice = True
            ranges = [(lo, hi) if k >= dim else (lo, lo + rng.choice([4, 5, 6])) if k < 2 else (lo, min(hi, lo + 1))
                      for k, (lo, hi) in enumerate(ranges)]
    n_el = 1
    for lo, hi in ranges:
        n_el *= hi - lo + 1
    us = [rng.choice(pool) for _ in range(n_el)]
    mat = rng.choice([1, 2, 3])
    cell = D.Cell(cell_id, e, mat=mat, rho=rng.choice(['-2.7', '-1.0', '0.05']), imp=1, u=u,
                  fill={'ranges': ranges, 'us': us, 'tr': None}, lat=1 if kind.startswith(('rect', 'skew', 'tilt', 'rpp', 'box')) else 2)
    if rng.random() < lat_tr_p:
        m, cls = G.random_motion(rng, rng.choice(rot_classes) if rot_classes else ('mirror' if rng.random() < 0.1 else None))
        cell.fill['tr'] = m
        if rng.random() < 0.3 and cls not in ('generic', 'mirror'):
            cell.hints['fill_star'] = True
    if rng.random() < lat_trcl_p:
        m, cls = G.random_motion(rng, rng.choice(rot_classes) if rot_classes else ('mirror' if rng.random() < 0.1 else None))
        cell.trcl = m
    d.cells.append(cell)
    return cell
