"""Common machinery of every check: build + axiom audit of the Lean side, parallel execution of
case streams (correspondence 'C', spec monitor 'S'), search for a failing input when a proof or a
correspondence is broken, classification against known_findings.json, evidence, exit code."""
import collections
import hashlib
import json
import os
import re
import subprocess
import sys
import time
import traceback

VERIF = os.path.dirname(os.path.dirname(os.path.abspath(__file__)))
# where evidence and replay files go: /verif/evidence unless a mutation campaign redirects its (mutated-tree) runs
EVDIR = os.environ.get('VERIF_EVIDENCE_DIR') or os.path.join(VERIF, 'evidence')
LEAN_DIR = os.path.join(VERIF, 'lean')
ALLOWED_AXIOMS = {'propext', 'Classical.choice', 'Quot.sound'}
FORBIDDEN = re.compile(r'\b(sorry|admit|native_decide|bv_decide|implemented_by|unsafe)\b|^\s*axiom\s|maxHeartbeats\s+0', re.M)

TRUSTED_BASE = [
    'Lean 4.33.0 kernel; axioms audited per theorem on every run: subset of {propext, Classical.choice, Quot.sound}',
    'the reference semantics (T4V/Spec/*.lean): MCNP and TRIPOLI-4 surface catalogues, volume operators, TR/TRCL/FILL/LAT meaning as transcribed from the manuals and the repository documentation (no MCNP / TRIPOLI-4 binary is available)',
    'the hand-written Lean model is tied to /repo by the correspondence streams of this run (same inputs to model and code, canonicalised outputs compared); coverage is bounded by the generators',
    'harness/shim.py: PEG engine standing in for the broken TatSu engine (the grammar file, normalize() and GeomSemantics of /repo stay live)',
    'floating point: theorems are over exact ordered fields; the run uses IEEE doubles with a 1e-6 off-surface margin',
]


# ------------------------------------------------------------------------- Lean side

def strip_comments(src):
    src = re.sub(r'/-.*?-/', '', src, flags=re.S)
    src = re.sub(r'--[^\n]*', '', src)
    return src


def lean_build(log, prop_id=None):
    t0 = time.time()
    p = subprocess.run(['lake', 'build'], cwd=LEAN_DIR, capture_output=True, text=True)
    log.append('lake build: rc=%d in %.1fs' % (p.returncode, time.time() - t0))
    if p.returncode != 0 and prop_id:
        # some other property's proof file may be broken: only this property's files decide here
        p = subprocess.run(['lake', 'build', 'T4V', 'driver', 'T4V.Props.%s' % prop_id], cwd=LEAN_DIR,
                           capture_output=True, text=True)
        log.append('lake build (this property only): rc=%d in %.1fs' % (p.returncode, time.time() - t0))
    return p.returncode == 0, (p.stdout + p.stderr)[-4000:]


def lean_files_of(prop_file):
    """transitive local imports of a Props file"""
    seen = set()
    todo = [prop_file]
    while todo:
        f = todo.pop()
        if f in seen:
            continue
        seen.add(f)
        try:
            src = open(os.path.join(LEAN_DIR, f)).read()
        except OSError:
            continue
        for m in re.finditer(r'^import\s+(T4V[\w.]*)', src, re.M):
            todo.append(m.group(1).replace('.', '/') + '.lean')
    return sorted(seen)


def theorem_names(prop_file):
    src = strip_comments(open(os.path.join(LEAN_DIR, prop_file)).read())
    ns = re.search(r'^namespace\s+([\w.]+)', src, re.M)
    prefix = (ns.group(1) + '.') if ns else ''
    return [prefix + m.group(1) for m in re.finditer(r'^theorem\s+([\w.\']+)', src, re.M)]


def lean_audit(prop_id, log):
    """returns dict(obligations, discharged, problems[], theorems[])"""
    prop_file = 'T4V/Props/%s.lean' % prop_id
    res = dict(obligations=0, discharged=0, problems=[], theorems=[])
    if not os.path.exists(os.path.join(LEAN_DIR, prop_file)):
        res['problems'].append('missing ' + prop_file)
        return res
    for f in lean_files_of(prop_file):
        src = strip_comments(open(os.path.join(LEAN_DIR, f)).read())
        m = FORBIDDEN.search(src)
        if m:
            res['problems'].append('%s: forbidden token %r' % (f, m.group(0).strip()))
    names = theorem_names(prop_file)
    res['obligations'] = len(names)
    audit = 'import %s\n' % prop_file[:-5].replace('/', '.') + ''.join('#print axioms %s\n' % n for n in names)
    apath = os.path.join(LEAN_DIR, '.lake', 'audit_%s.lean' % prop_id)
    os.makedirs(os.path.dirname(apath), exist_ok=True)
    with open(apath, 'w') as f:
        f.write(audit)
    t0 = time.time()
    p = subprocess.run(['lake', 'env', 'lean', apath], cwd=LEAN_DIR, capture_output=True, text=True)
    log.append('axiom audit: rc=%d in %.1fs' % (p.returncode, time.time() - t0))
    out = p.stdout + p.stderr
    if p.returncode != 0:
        res['problems'].append('audit file does not compile: ' + out[-800:])
        return res
    # "'X' depends on axioms: [a, b]"  |  "'X' does not depend on any axioms"
    blocks = re.findall(r"'([^'\s]+'*)' (does not depend on any axioms|depends on axioms: \[([^\]]*)\])", out)
    seen = {}
    for name, _, axs in blocks:
        ax = [a.strip() for a in axs.replace('\n', ' ').split(',') if a.strip()]
        seen[name] = ax
    for n in names:
        if n not in seen:
            res['problems'].append('no axiom report for ' + n)
            continue
        bad = [a for a in seen[n] if a not in ALLOWED_AXIOMS]
        res['theorems'].append({'name': n, 'axioms': seen[n]})
        if bad:
            res['problems'].append('%s depends on %s' % (n, bad))
        else:
            res['discharged'] += 1
    return res


# ------------------------------------------------------------------------- case execution

class Failure(dict):
    """kind: 'violation' (spec rejects the code's output; carries a failing input),
             'disagreement' (model and code differ: correspondence broken),
             'infra' (the check itself could not run)"""


def sig_hash(obj):
    return hashlib.sha1(json.dumps(obj, sort_keys=True, default=str).encode()).hexdigest()[:16]


_worker = {}


def worker_init():
    from . import impl, lean
    impl.ensure()
    _worker['drv'] = lean.Driver()
    import warnings
    warnings.simplefilter('ignore')


def worker_ctx():
    if 'drv' not in _worker:
        worker_init()
    return _worker


def run_chunk(job):
    """job = (module name, stream name, [seeds], params) → aggregated result (picklable)"""
    modname, stream, seeds, params = job
    import importlib
    mod = importlib.import_module(modname)
    ctx = worker_ctx()
    agg = dict(stream=stream, evaluations=0, hashes=[], nontrivial_hashes=[], dist=collections.Counter(),
               samples=[], failures=[], skipped=0)
    import signal

    class CaseTimeout(BaseException):      # not an Exception: a broad `except Exception` in the code under test must not swallow it
        pass

    def on_alarm(signum, frame):
        raise CaseTimeout()
    limit = int(os.environ.get('VERIF_CASE_TIMEOUT', getattr(mod, 'CASE_TIMEOUT', 120)))
    for seed in seeds:
        try:
            # one generated case never needs more than a few seconds; an endless loop in the code under test
            # (or in a generator) must not hang the check
            old = signal.signal(signal.SIGALRM, on_alarm)
            signal.alarm(limit)
            try:
                r = mod.run_case(stream, seed, ctx, params)
            finally:
                signal.alarm(0)
                signal.signal(signal.SIGALRM, old)
        except CaseTimeout:
            # the driver may have an unanswered request pending: start a fresh one
            try:
                ctx['drv'].p.kill()
            except Exception:  # noqa
                pass
            from . import lean as _lean
            ctx['drv'] = _lean.Driver()
            agg['failures'].append(Failure(kind='infra', stream=stream, seed=seed,
                                           message='case did not finish within %d s (stream %s, seed %d)' % (limit, stream, seed),
                                           signature={'stream': stream, 'class': 'case-timeout'}, replay=None))
            continue
        except Exception as e:  # noqa
            agg['failures'].append(Failure(kind='infra', stream=stream, seed=seed,
                                           message='harness exception: %s' % traceback.format_exc()[-1500:],
                                           signature={'stream': stream, 'class': 'harness-exception'}, replay=None))
            continue
        if r is None:
            agg['skipped'] += 1
            try:
                from .props import common as _common
                if _common.LAST_DEGENERATE:
                    agg.setdefault('degenerate', 0)
                    agg['degenerate'] += 1
                    if 'degenerate_sample' not in agg:
                        agg['degenerate_sample'] = _common.LAST_DEGENERATE[-1]
                    del _common.LAST_DEGENERATE[:]
            except Exception:  # noqa
                pass
            continue
        agg['evaluations'] += r.get('evaluations', 1)
        agg['hashes'].extend(r.get('hashes', []))
        agg['nontrivial_hashes'].extend(r.get('nontrivial_hashes', []))
        agg['dist'].update(r.get('dist', {}))
        if len(agg['samples']) < 2 and r.get('sample') is not None:
            agg['samples'].append(r['sample'])
        for f in r.get('failures', []):
            f.setdefault('stream', stream)
            f.setdefault('seed', seed)
            agg['failures'].append(f)
    agg['dist'] = dict(agg['dist'])
    return agg


def run_streams(modname, plan, seed, workers=None):
    """plan = [(stream, n_cases, params)]; seeds derive from the one VERIF_SEED"""
    import multiprocessing as mp
    workers = workers or int(os.environ.get('VERIF_WORKERS', 0) or 0) or min(16, os.cpu_count() or 4)
    jobs = []
    for si, (stream, n, params) in enumerate(plan):
        seeds = [seed * 1000003 + si * 100003 + i for i in range(n)]
        chunk = max(1, (n + workers * 3 - 1) // (workers * 3))
        for i in range(0, n, chunk):
            jobs.append((modname, stream, seeds[i:i + chunk], params))
    if not jobs:
        return []
    ctxm = mp.get_context('fork')
    # the per-case alarm cannot interrupt a call that never returns to the interpreter (a regular expression that
    # backtracks for ever, say): the whole run is bounded as well, and ends as "could not decide" (exit 2)
    ncases = sum(n for _, n, _ in plan)
    hard = int(os.environ.get('VERIF_HARD_TIMEOUT', 0) or 0) or (1500 if ncases <= 30000 else 5 * 3600)
    with ctxm.Pool(workers, initializer=worker_init) as pool:
        res = pool.map_async(run_chunk, jobs, chunksize=1)
        try:
            return res.get(timeout=hard)
        except mp.TimeoutError:
            pool.terminate()
            return [dict(stream='*', evaluations=0, hashes=[], nontrivial_hashes=[], dist={}, samples=[], skipped=0,
                         failures=[Failure(kind='infra', stream='*', seed=seed,
                                           message='the streams did not finish within %d s: some case hangs outside the '
                                                   'interpreter (the per-case alarm did not fire)' % hard,
                                           signature={'stream': '*', 'class': 'hard-timeout'}, replay=None)])]


# ------------------------------------------------------------------------- known findings

def load_known():
    p = os.path.join(VERIF, 'known_findings.json')
    if not os.path.exists(p):
        return []
    return json.load(open(p)).get('findings', [])


def match_known(prop_id, failure, known):
    sig = failure.get('signature') or {}
    for k in known:
        if k.get('status', 'open') != 'open' or k.get('property') != prop_id:
            continue
        ok = True
        for key, want in k.get('match', {}).items():
            have = sig.get(key)
            if isinstance(want, list):
                if have not in want:
                    ok = False
            elif have != want:
                ok = False
        if ok:
            return k
    return None


# ------------------------------------------------------------------------- main driver

def main_check(prop_id, modname, argv):
    import argparse
    ap = argparse.ArgumentParser()
    ap.add_argument('--tier', default=os.environ.get('VERIF_TIER', 'quick'))
    ap.add_argument('--replay', default=None)
    ap.add_argument('--workers', type=int, default=None)
    args = ap.parse_args(argv)
    tier = 'thorough' if args.tier == 'thorough' else 'quick'
    seed = int(os.environ.get('VERIF_SEED', '0') or 0)
    import importlib
    mod = importlib.import_module(modname)
    t0 = time.time()
    log = []

    if args.replay:
        payload = json.load(open(args.replay))
        worker_init()
        out = mod.replay(payload, worker_ctx())
        print(json.dumps(out, indent=1, default=str)[:6000])
        return 0 if not out.get('violation') else 1

    # 1 build + audit -----------------------------------------------------------------
    ok_build, build_out = lean_build(log, prop_id)
    if not ok_build:
        # the proof side does not even compile: infrastructure failure unless Props/<id> is the culprit
        print('lean build failed:\n' + build_out)
    audit = lean_audit(prop_id, log) if ok_build else dict(obligations=0, discharged=0,
                                                           problems=['lake build failed'], theorems=[])
    if ok_build and tier == 'thorough' and os.environ.get('VERIF_LEANCHECKER', '1') != '0':
        # independent re-check of the compiled property module (and everything it imports) by Lean's external checker
        t0 = time.time()
        try:
            p = subprocess.run(['lake', 'env', 'leanchecker', 'T4V.Props.%s' % prop_id], cwd=LEAN_DIR,
                               capture_output=True, text=True, timeout=1800)
            log.append('leanchecker T4V.Props.%s: rc=%d in %.1fs' % (prop_id, p.returncode, time.time() - t0))
            if p.returncode != 0:
                audit['problems'].append('leanchecker rejects T4V.Props.%s: %s' % (prop_id, (p.stdout + p.stderr)[-600:]))
        except (OSError, subprocess.TimeoutExpired) as e:
            log.append('leanchecker not run: %s' % e)
    proof_broken = bool(audit['problems'])

    # 2-4 corpus, generated cases, monitors ------------------------------------------------
    plan = mod.plan(tier)
    if tier == 'thorough':
        # the thorough tier multiplies every stream's case count (default 32; a module may set THOROUGH_SCALE;
        # VERIF_THOROUGH_SCALE overrides): conversions are cheap, so depth is bought with cases
        scale = float(os.environ.get('VERIF_THOROUGH_SCALE', getattr(mod, 'THOROUGH_SCALE', 32)))
        plan = [(st, (n if n <= 1 else max(1, int(n * scale))), prm) for st, n, prm in plan]
    else:
        # since the point monitor evaluates through hash tables a deck costs a fraction of a second: the quick tier runs
        # twice the cases its plans name (a module may set QUICK_SCALE; VERIF_QUICK_SCALE overrides)
        qscale = float(os.environ.get('VERIF_QUICK_SCALE', getattr(mod, 'QUICK_SCALE', 2)))
        plan = [(st, (n if n <= 1 else max(1, int(n * qscale))), prm) for st, n, prm in plan]
    results = run_streams(modname, plan, seed, args.workers)
    failures = [f for r in results for f in r['failures']]
    # a generated deck with nothing to convert makes the converter's progress bars fail on max([]); such decks are
    # skipped. A few are normal; when a sizeable part of a stream's valid decks ends that way the converter has
    # stopped converting them, and that is a failure of its own with the deck as the replay
    by_stream = {}
    for r in results:
        b = by_stream.setdefault(r['stream'], dict(n=0, deg=0, sample=None))
        b['n'] += r['evaluations'] + r.get('skipped', 0)
        b['deg'] += r.get('degenerate', 0)
        if b['sample'] is None and r.get('degenerate_sample'):
            b['sample'] = r['degenerate_sample']
    for st, b in by_stream.items():
        if b['deg'] >= 8 and b['deg'] > 0.2 * max(1, b['n']):
            failures.append(Failure(kind='violation', stream=st, seed=None,
                                    message='%d of %d valid generated decks of stream %s were not converted at all (%s)'
                                    % (b['deg'], b['n'], st, (b['sample'] or {}).get('error')),
                                    signature={'stream': st, 'class': 'nothing-converted'}, replay=b['sample']))
    violations = [f for f in failures if f['kind'] == 'violation']
    disagreements = [f for f in failures if f['kind'] == 'disagreement']
    infra = [f for f in failures if f['kind'] == 'infra']

    # 5 search -------------------------------------------------------------------------------
    search_note = None
    known = load_known()

    def fresh(vs):
        """violations that are not listed known findings (a known finding must not mask a broken proof
        or correspondence)"""
        return [f for f in vs if match_known(prop_id, f, known) is None]
    if (proof_broken or disagreements) and not fresh(violations):
        splan = mod.search_plan(tier, disagreements) if hasattr(mod, 'search_plan') else []
        if splan:
            sres = run_streams(modname, splan, seed + 7919, args.workers)
            results += sres
            for r in sres:
                for f in r['failures']:
                    if f['kind'] == 'violation':
                        violations.append(f)
        search_note = 'search ran %d extra cases' % sum(n for _, n, _ in splan) if splan else 'no search stream'

    # 6 classify --------------------------------------------------------------------------------
    rdir = os.path.join(EVDIR, 'replay')
    os.makedirs(rdir, exist_ok=True)
    for fn in os.listdir(rdir):            # replay files of earlier runs of this check are stale
        if fn.startswith(prop_id + '_'):
            try:
                os.remove(os.path.join(rdir, fn))
            except OSError:
                pass
    lines = []
    n_viol = 0
    seen_known = set()
    seen_sig = set()
    for f in violations:
        k = match_known(prop_id, f, known)
        if k is not None:
            if k['id'] not in seen_known:
                seen_known.add(k['id'])
                lines.append('KNOWN-FINDING: property=%s %s' % (prop_id, k['what']))
            continue
        h = sig_hash(f.get('signature') or f.get('message'))
        if h in seen_sig:
            continue
        seen_sig.add(h)
        n_viol += 1
        path = os.path.join(EVDIR, 'replay', '%s_%s.json' % (prop_id, h))
        json.dump(dict(property=prop_id, kind='violation', stream=f.get('stream'), seed=f.get('seed'),
                       message=f.get('message'), signature=f.get('signature'), payload=f.get('replay')),
                  open(path, 'w'), indent=1, default=str)
        lines.append('VIOLATION property=%s replay=%s' % (prop_id, path))
    if not fresh(violations) and (proof_broken or disagreements):
        n_viol += 1
        what = []
        if proof_broken:
            what += ['theorem/audit: ' + p for p in audit['problems'][:5]]
        for f in disagreements[:5]:
            what.append('correspondence %s: %s' % (f.get('stream'), (f.get('message') or '')[:400]))
        h = sig_hash(what)
        path = os.path.join(EVDIR, 'replay', '%s_unshown_%s.json' % (prop_id, h))
        json.dump(dict(property=prop_id, kind='no-longer-shown', broken=what,
                       first_disagreement=(disagreements[0].get('replay') if disagreements else None),
                       search=search_note), open(path, 'w'), indent=1, default=str)
        lines.append('VIOLATION property=%s replay=%s no-failing-input-found' % (prop_id, path))

    # 7 evidence -----------------------------------------------------------------------------------
    evaluations = sum(r['evaluations'] for r in results)
    hashes = set(h for r in results for h in r['hashes'])
    nth = set(h for r in results for h in r['nontrivial_hashes'])
    dist = collections.Counter()
    per_stream = collections.Counter()
    for r in results:
        dist.update(r['dist'])
        per_stream[r['stream']] += r['evaluations']
    samples = []
    for r in results:
        for s in r['samples']:
            if len(samples) < 6:
                samples.append({'stream': r['stream'], 'case': s})
    samples += [{'obligation': t['name'], 'axioms': t['axioms']} for t in audit['theorems'][:12]]
    cov = dict(
        obligations=audit['obligations'], discharged=audit['discharged'],
        checker_cmd='cd lean && lake build && lake env lean .lake/audit_%s.lean   # #print axioms of every theorem in T4V/Props/%s.lean' % (prop_id, prop_id),
        trusted_base=TRUSTED_BASE + getattr(mod, 'EXTRA_TRUST', []),
        evaluations=evaluations, distinct_nontrivial=len(nth), distinct_cases=len(hashes),
        rule=getattr(mod, 'RULE', ''), samples=samples or [{'note': 'no case ran'}],
        per_stream=dict(per_stream), distribution=dict(dist),
        theorems=[t['name'] for t in audit['theorems']], audit_problems=audit['problems'],
        not_proved=getattr(mod, 'NOT_PROVED', []),
        correspondence_disagreements=len(disagreements), infra_failures=len(infra),
        known_findings_reported=sorted(seen_known), search=search_note,
        exhaustive=False,
    )
    ev = dict(property_id=prop_id, tier=tier, seed=seed, level=getattr(mod, 'LEVEL', 'proof'), coverage=cov,
              assumptions=getattr(mod, 'ASSUMPTIONS', []), wall_s=round(time.time() - t0, 2), violations=n_viol)
    with open(os.path.join(EVDIR, prop_id + '.json'), 'w') as fh:
        json.dump(ev, fh, indent=1, default=str)
    for l in log:
        print('# ' + l)
    print('# %s tier=%s seed=%d evaluations=%d distinct_nontrivial=%d theorems=%d/%d disagreements=%d infra=%d wall=%.1fs'
          % (prop_id, tier, seed, evaluations, len(nth), audit['discharged'], audit['obligations'],
             len(disagreements), len(infra), time.time() - t0))
    for f in infra[:3]:
        print('# INFRA: ' + (f.get('message') or '')[:600])
    for f in disagreements[:4]:
        print('# DISAGREEMENT (model vs code) [%s seed=%s]: %s' % (f.get('stream'), f.get('seed'), (f.get('message') or '')[:700]))
    for l in lines:
        print(l)
    if n_viol:
        return 1
    if infra and evaluations == 0:
        return 2
    if any((f.get('signature') or {}).get('class') in ('case-timeout', 'hard-timeout') for f in infra):
        # some case never finished: the property is not shown to hold on everything explored
        return 2
    return 0
