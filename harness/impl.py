"""Run the real converter (from /repo's working tree) in-process."""
import contextlib
import io
import os
import shutil
import sys
import tempfile
import warnings

REPO = os.environ.get('T4GC_REPO', '/repo')
if REPO not in sys.path[:1]:
    sys.path.insert(0, REPO)
os.environ.setdefault('T4GC_VERIF', '1')

from harness import shim  # noqa: E402

_installed = False


def ensure():
    global _installed
    if not _installed:
        shim.install()
        _installed = True


class Result:
    __slots__ = ('t4', 'stdout', 'exc', 'exc_type', 'exc_msg', 'argv', 'deck')

    def __init__(self):
        self.t4 = None
        self.stdout = ''
        self.exc = None
        self.exc_type = None
        self.exc_msg = None
        self.argv = None
        self.deck = None

    @property
    def ok(self):
        return self.exc is None

    def skipped_note(self):
        """cells listed in the end-of-run NOTE (None if there is no note)"""
        import re
        m = re.search(r'NOTE: the following cells have been omitted.*?\n\s*(\[[^\]]*\])', self.stdout, re.S)
        if not m:
            return None
        return [int(x) for x in re.findall(r'-?\d+', m.group(1))]


_scratch = None


def scratch_dir():
    global _scratch
    if _scratch is None:
        _scratch = tempfile.mkdtemp(prefix='t4v-')
        import atexit
        atexit.register(lambda: shutil.rmtree(_scratch, ignore_errors=True))
    return _scratch


def convert(deck_text, args=(), encoding=None, name='deck'):
    """conversion(parse_args([...])) on a deck given as text; returns Result."""
    ensure()
    from t4_geom_convert.main import conversion, parse_args
    d = scratch_dir()
    inp = os.path.join(d, name + '.imcnp')
    out = os.path.join(d, name + '.t4')
    if os.path.exists(out):
        os.remove(out)
    with open(inp, 'w', encoding=encoding or 'utf-8') as f:
        f.write(deck_text)
    argv = [inp, '-o', out, *args]
    if encoding:
        argv += ['-e', encoding]
    res = Result()
    res.argv = list(args)
    res.deck = deck_text
    buf = io.StringIO()
    try:
        with contextlib.redirect_stdout(buf), warnings.catch_warnings():
            warnings.simplefilter('ignore')
            conversion(parse_args(argv))
    except SystemExit as e:      # argparse errors
        res.exc = e
        res.exc_type = 'SystemExit'
        res.exc_msg = str(e)
    except BaseException as e:   # noqa
        if isinstance(e, KeyboardInterrupt):
            raise
        res.exc = e
        res.exc_type = type(e).__name__
        res.exc_msg = str(e)
    res.stdout = buf.getvalue()
    if res.exc is None and os.path.exists(out):
        with open(out) as f:
            res.t4 = f.read()
    return res
