"""usage: /venv/bin/python -m harness.check <property id> [--tier quick|thorough] [--replay file]"""
import os
import sys

VERIF = os.path.dirname(os.path.dirname(os.path.abspath(__file__)))
if VERIF not in sys.path:
    sys.path.insert(0, VERIF)


def main():
    if len(sys.argv) < 2:
        print(__doc__)
        return 2
    pid = sys.argv[1].upper()
    from harness import framework
    modname = 'harness.props.%s' % pid.lower()
    return framework.main_check(pid, modname, sys.argv[2:])


if __name__ == '__main__':
    sys.exit(main())
