"""Type-directed generators for geometry decks.

Valid MCNP geometry (each point in exactly one cell) is obtained *by construction*: a random
binary space partition over the deck's surfaces is drawn, its leaves are grouped into cells, and
the resulting expressions are obfuscated semantics-preservingly (redundant parentheses, De Morgan
complements `#( … )`, `#n` of other cells, repeated surfaces)."""
import math
from . import deck as D

HALF = [x / 2.0 for x in range(-8, 9)]
POSR = [1.0, 1.5, 2.0, 2.5, 3.0, 4.0, 5.0, 6.0]


def rint(rng, lo, hi):
    return float(rng.randint(lo, hi))


def nonzero_vec(rng, lo=-3, hi=3):
    while True:
        v = [rint(rng, lo, hi) for _ in range(3)]
        if any(v):
            return v


def cross(a, b):
    return [a[1] * b[2] - a[2] * b[1], a[2] * b[0] - a[0] * b[2], a[0] * b[1] - a[1] * b[0]]


def dot(a, b):
    return sum(x * y for x, y in zip(a, b))


def ortho_triple(rng):
    """three mutually orthogonal integer vectors (either handedness), not nec. unit"""
    choices = [
        ([1, 0, 0], [0, 1, 0], [0, 0, 1]),
        ([1, 1, 0], [1, -1, 0], [0, 0, 1]),
        ([1, 0, 1], [0, 1, 0], [1, 0, -1]),
        ([1, 2, 2], [2, 1, -2], [2, -2, 1]),
        ([0, 3, 4], [0, 4, -3], [1, 0, 0]),
    ]
    a, b, c = [list(map(float, v)) for v in rng.choice(choices)]
    vs = [a, b, c]
    rng.shuffle(vs)
    vs = [scale(v, float(rng.choice([1, -1]))) for v in vs]
    return vs


def scale(v, k):
    return [x * k for x in v]


def axis_vec(rng, near_p=0.15):
    """a body axis: one of the nice orthogonal directions, or — now and then — a direction within a few degrees of a
    coordinate axis without being one (10 : 0.3 : 0.1, i.e. 1.8° off; 40 : 0.5 : -1, 1.6° off)"""
    if rng.random() >= near_p:
        return ortho_triple(rng)[0]
    v = rng.choice([[10.0, 0.3, 0.1], [40.0, 0.5, -1.0], [10.0, -0.25, 0.0], [20.0, 0.0, 0.5], [10.0, 0.4, 0.2]])
    k = rng.randrange(3)
    v = v[-k:] + v[:-k] if k else list(v)
    sg = rng.choice([1.0, -1.0])
    return [sg * x / 10.0 for x in v]


def elementary(rng, kinds=None):
    """(mnemonic, params) with 'nice' parameters"""
    kinds = kinds or ['px', 'py', 'pz', 'p', 'p3', 'so', 's', 'sx', 'sy', 'sz', 'c/x', 'c/y', 'c/z', 'cx', 'cy',
                      'cz', 'k/x', 'k/y', 'k/z', 'kx', 'ky', 'kz', 'k/x1', 'k/y1', 'k/z1', 'kx1', 'ky1', 'kz1',
                      'sq', 'gq', 'tx', 'ty', 'tz', 'x', 'y', 'z']
    k = rng.choice(kinds)
    c = lambda: rng.choice(HALF)  # noqa
    r = lambda: rng.choice(POSR)  # noqa
    t2 = lambda: rng.choice([0.25, 0.5, 1.0, 2.0, 4.0, 1.0 / 3.0, 3.0])  # noqa
    if k in ('px', 'py', 'pz'):
        return k, [c()]
    if k == 'p':
        if rng.random() < 0.3:
            # exactly one non-zero coefficient, of either sign (the PLANEX/Y/Z branches of convert_plane)
            n = [0.0, 0.0, 0.0]
            n[rng.randrange(3)] = rng.choice([1.0, -1.0, 2.0, -2.0, -0.5])
            return 'p', n + [rng.choice(HALF)]
        n = nonzero_vec(rng)
        return 'p', n + [rng.choice(HALF)]
    if k == 'p3':
        if rng.random() < 0.3:
            # three points of a plane perpendicular to an axis, on either side of the origin
            a = rng.randrange(3)
            cc = rng.choice([-5.0, -2.5, -1.0, 1.0, 2.5, 5.0])
            uv = rng.choice([[(0, 0), (1, 0), (0, 1)], [(0, 0), (0, 1), (1, 0)], [(1, 2), (-2, 1), (3, -1)]])
            pts = []
            for (u_, v_) in uv:
                q = [float(u_), float(v_)]
                q.insert(a, cc)
                pts.append(q)
            return 'p', pts[0] + pts[1] + pts[2]
        while True:
            pts = [[rint(rng, -4, 4) for _ in range(3)] for _ in range(3)]
            n = cross([pts[1][i] - pts[0][i] for i in range(3)], [pts[2][i] - pts[0][i] for i in range(3)])
            if any(n):
                return 'p', pts[0] + pts[1] + pts[2]
    if k == 'so':
        return k, [r()]
    if k == 's':
        return k, [c(), c(), c(), r()]
    if k in ('sx', 'sy', 'sz'):
        return k, [c(), r()]
    if k in ('c/x', 'c/y', 'c/z'):
        return k, [c(), c(), r()]
    if k in ('cx', 'cy', 'cz'):
        return k, [r()]
    def apex(mn):
        # general apex, or an apex on the cone's own axis (incl. the origin): the card then says the same as kx / ky / kz
        a = [c(), c(), c()]
        if rng.random() < 0.3:
            ax = 'xyz'.index(mn[2])
            a = [v if i == ax else 0.0 for i, v in enumerate(a)]
            if rng.random() < 0.3:
                a = [0.0, 0.0, 0.0]
        return a
    if k in ('k/x', 'k/y', 'k/z'):
        return k, apex(k) + [t2()]
    if k in ('kx', 'ky', 'kz'):
        return k, [c(), t2()]
    if k in ('k/x1', 'k/y1', 'k/z1'):
        return k[:3], apex(k) + [t2(), rng.choice([1.0, -1.0])]
    if k in ('kx1', 'ky1', 'kz1'):
        return k[:2], [c(), t2(), rng.choice([1.0, -1.0])]
    if k == 'sq':
        # ellipsoids / elliptic cylinders / hyperboloids negative at their own centre
        a, b, cc = rng.choice([(1., 2., 3.), (1., 1., 0.), (4., 1., 1.), (1., -1., 2.), (2., 0., 1.)])
        # linear terms D, E, F (all three, so that every term of the expansion about the reference point matters)
        lin = [rng.choice([0.5, -0.25, 0.75, -1.0]) for _ in range(3)] if rng.random() < 0.35 else [0., 0., 0.]
        return 'sq', [a, b, cc] + lin + [-rng.choice([4., 9., 16.]), c(), c(), c()]
    if k == 'gq':
        # rotated ellipsoid: x² + y² + z² + xy - R
        base = rng.choice([
            [1., 1., 1., 1., 0., 0., 0., 0., 0., -9.],
            [2., 1., 1., 0., 1., 0., 1., 0., 0., -8.],
            [1., 2., 1., 0., 0., 1., 0., -2., 0., -6.],
            [1., 1., 0., 0., 0., 0., 0., 0., -4., 0.],    # paraboloid
            [1., -1., 1., 0., 0., 0., 0., 0., 0., -4.],   # hyperboloid
            [-1., -1., -1., 0., 0., 0., 0., 0., 0., 36.],  # sphere written with the opposite sense
            [-0.25, 1., 1., 0., 0., 0., 0., 0., 0., 0.],   # cone about x, first coefficient negative
            [0., 0., -2., 0., 0., 0., 1., 1., 0., 4.],     # first non-zero coefficient negative
            [-2., -1., -1., 0., -1., 0., -1., 0., 0., 8.],
        ])
        return 'gq', base
    if k in ('tx', 'ty', 'tz'):
        a = rng.choice([4.0, 5.0, 6.0])
        b = rng.choice([1.0, 1.5, 2.0])
        cc = rng.choice([b, 1.0, 2.0])
        return k, [c(), c(), c(), a, b, cc]
    if k in ('x', 'y', 'z'):
        form = rng.choice(['plane', 'plane2', 'cyl', 'cone', 'cone'])
        if form == 'plane':
            return k, [c(), r()]
        if form == 'plane2':
            a = c()
            return k, [a, r(), a, r()]
        if form == 'cyl':
            rr = r()
            return k, [c(), rr, c() + 7.5, rr]
        a1 = c()
        a2 = a1 + rng.choice([1.0, 2.0, -1.0, -2.0, 3.0])
        r1 = r()
        r2 = r1 + rng.choice([1.0, 2.0, 0.5])
        if rng.random() < 0.5:
            r1, r2 = r2, r1
        return k, [a1, r1, a2, r2]
    raise ValueError(k)


def macrobody(rng, kinds=None, irregular=None):
    kinds = kinds or ['rpp', 'box', 'sph', 'rcc', 'rhp9', 'rhp15', 'hex', 'rec10', 'rec12', 'trc', 'ell+', 'ell-',
                      'wed', 'arb6', 'arb5']
    k = rng.choice(kinds)
    c = lambda: rng.choice(HALF)  # noqa
    if k == 'rpp':
        lo = [c() for _ in range(3)]
        sz = [rng.choice([1.0, 2.0, 3.0, 4.5]) for _ in range(3)]
        return 'rpp', [lo[0], lo[0] + sz[0], lo[1], lo[1] + sz[1], lo[2], lo[2] + sz[2]]
    if k == 'box' and rng.random() < 0.25:
        # edges along x, y, z in this order, any of them pointing the negative way (facets are numbered by the vectors)
        sg = lambda: rng.choice([1.0, -1.0])   # noqa
        return 'box', [c(), c(), c()] + [sg() * rng.choice([1., 2., .5]), 0.0, 0.0] + [0.0, sg() * rng.choice([1., 2.]), 0.0] \
            + [0.0, 0.0, sg() * rng.choice([1., 3., .5])]
    if k == 'box':
        a, b, cc = ortho_triple(rng)
        a, b, cc = scale(a, rng.choice([1., 2., .5])), scale(b, rng.choice([1., 2.])), scale(cc, rng.choice([1., 3., .5]))
        return 'box', [c(), c(), c()] + a + b + cc
    if k == 'sph':
        return 'sph', [c(), c(), c(), rng.choice(POSR)]
    if k == 'rcc':
        h = scale(axis_vec(rng), rng.choice([1., 2.]))
        return 'rcc', [c(), c(), c()] + h + [rng.choice(POSR)]
    if k in ('rhp9', 'hex'):
        h, r, _ = ortho_triple(rng)
        return ('hex' if k == 'hex' else 'rhp'), [c(), c(), c()] + scale(h, rng.choice([1., 2.])) + scale(r, rng.choice([1., 2.]))
    if k == 'rhp15':
        # three apothem vectors at 60° in the plane normal to z (then possibly permuted axes)
        s3 = math.sqrt(3.0)
        perm = rng.choice([(0, 1, 2), (1, 2, 0), (2, 0, 1)])
        def P(v):
            out = [0.0, 0.0, 0.0]
            for i, j in enumerate(perm):
                out[j] = v[i]
            return out
        rr = rng.choice([1.0, 2.0, 3.0])
        # regular, or irregular: facet vectors of different lengths (the solid is the intersection of the three slabs)
        ks, kt = (1.0, 1.0) if irregular is False or (irregular is None and rng.random() < 0.6) else \
            (rng.choice([0.75, 1.25, 1.5]), rng.choice([0.875, 1.125, 0.75]))
        r = P([rr, 0.0, 0.0])
        s = P([ks * rr / 2, ks * rr * s3 / 2, 0.0])
        t = P([-kt * rr / 2, kt * rr * s3 / 2, 0.0])
        hlen = rng.choice([2.0, 4.0]) * rng.choice([1, -1])
        return 'rhp', [c(), c(), c()] + P([0., 0., hlen]) + r + s + t
    if k in ('rec10', 'rec12'):
        h, a, b = ortho_triple(rng)
        h, a = scale(h, rng.choice([1., 2.])), scale(a, rng.choice([1., 1.5]))
        if k == 'rec10':
            return 'rec', [c(), c(), c()] + h + a + [rng.choice([0.5, 1.0, 2.0])]
        return 'rec', [c(), c(), c()] + h + a + scale(b, rng.choice([0.5, 1.0]))
    if k == 'trc':
        if rng.random() < 0.15:
            # a slender cone (collimator, beam pipe, tapered pin): metres long, radii that differ by centimetres — the
            # half-aperture is below 1e-3 although the radii differ a lot (probe points: `trc_probe_points`)
            ln = rng.choice([300.0, 1000.0, 2500.0])
            r1 = rng.choice([2.0, 3.0, 6.0])
            r2 = r1 + rng.choice([1, -1]) * ln * rng.choice([0.0003, 0.0006, 0.0009])
            if r2 <= 0.2:
                r2 = r1 + ln * 0.0006
            return 'trc', [c(), c(), c()] + scale(axis_vec(rng), ln) + [r1, r2]
        h = scale(axis_vec(rng), rng.choice([1., 2.]))
        r1, r2 = rng.sample([0.5, 1.0, 2.0, 3.0], 2)
        return 'trc', [c(), c(), c()] + h + [r1, r2]
    if k == 'ell+':
        ctr = [c(), c(), c()]
        ax = axis_vec(rng, 0.25)
        n = math.sqrt(dot(ax, ax))
        cdist = rng.choice([1.0, 2.0])
        u = [x / n * cdist for x in ax]
        f1 = [ctr[i] + u[i] for i in range(3)]
        f2 = [ctr[i] - u[i] for i in range(3)]
        return 'ell', f1 + f2 + [cdist + rng.choice([1.0, 2.0])]
    if k == 'ell-':
        ax = scale(axis_vec(rng, 0.25), rng.choice([1., .5]))
        return 'ell', [c(), c(), c()] + ax + [-rng.choice([1.0, 2.0, 3.0])]
    if k == 'wed':
        a, b, h = ortho_triple(rng)
        return 'wed', [c(), c(), c()] + scale(a, rng.choice([1., 2.])) + scale(b, rng.choice([1., 2.])) + scale(h, rng.choice([1., 2.]))
    if k == 'arb6':
        # hexahedron: box corners with a sheared top
        x0, y0, z0 = c(), c(), c()
        dx, dy, dz = rng.choice([2., 3.]), rng.choice([2., 3.]), rng.choice([2., 4.])
        sh = rng.choice([0.0, 0.5, 1.0])
        v = [[x0, y0, z0], [x0 + dx, y0, z0], [x0 + dx, y0 + dy, z0], [x0, y0 + dy, z0],
             [x0 + sh, y0, z0 + dz], [x0 + dx + sh, y0, z0 + dz], [x0 + dx + sh, y0 + dy, z0 + dz], [x0 + sh, y0 + dy, z0 + dz]]
        facets = [1234., 5678., 1265., 2376., 3487., 4158.]
        rng.shuffle(facets)
        return 'arb', [x for p in v for x in p] + facets
    if k == 'arb5':
        # triangular prism: 6 vertices, 5 facets
        x0, y0, z0 = c(), c(), c()
        v = [[x0, y0, z0], [x0 + 3, y0, z0], [x0, y0 + 2, z0], [x0, y0, z0 + 4], [x0 + 3, y0, z0 + 4], [x0, y0 + 2, z0 + 4],
             [0., 0., 0.], [0., 0., 0.]]
        facets = [123., 456., 1254., 2365., 1364., 0.]
        return 'arb', [x for p in v for x in p] + facets
    raise ValueError(k)


def trc_probe_points(ps, rng, n=60):
    """points around the lateral surface of a TRC all along its length (between the cylinder of the base radius and the
    cone, just inside and just outside the cone, beyond the two end planes)"""
    b, hv, r1, r2 = ps[0:3], ps[3:6], ps[6], ps[7]
    ln = math.sqrt(dot(hv, hv))
    u = [x / ln for x in hv]
    t0 = [1.0, 0.0, 0.0] if abs(u[0]) < 0.9 else [0.0, 1.0, 0.0]
    e1 = cross(u, t0)
    n1 = math.sqrt(dot(e1, e1))
    e1 = [x / n1 for x in e1]
    e2 = cross(u, e1)
    out = []
    for _ in range(n):
        t = rng.choice([0.15, 0.4, 0.6, 0.85, 0.97, -0.02, 1.02])
        rc = r1 + (r2 - r1) * t
        rad = rc + (r1 - rc) * rng.choice([0.5, 0.5, -0.4, 1.4]) if rng.random() < 0.6 else rc * rng.choice([0.3, 0.9, 1.1, 2.0])
        ph = rng.uniform(0, 2 * math.pi)
        out.append([b[i] + t * hv[i] + rad * (math.cos(ph) * e1[i] + math.sin(ph) * e2[i]) for i in range(3)])
    return out


MACRO_NFACETS = {'rpp': 6, 'box': 6, 'sph': 1, 'rcc': 3, 'rhp': 8, 'hex': 8, 'rec': 3, 'trc': 3, 'ell': 1, 'wed': 5}


def nfacets(mn, ps):
    if mn == 'arb':
        return sum(1 for f in ps[24:] if f != 0)
    return MACRO_NFACETS[mn]


# ---------------------------------------------------------------- rotations

def rot_axis(axis, c, s):
    """rotation matrix (row-major 9) about a coordinate axis with cos c, sin s"""
    if axis == 0:
        return [1, 0, 0, 0, c, -s, 0, s, c]
    if axis == 1:
        return [c, 0, s, 0, 1, 0, -s, 0, c]
    return [c, -s, 0, s, c, 0, 0, 0, 1]


def matmul(a, b):
    return [sum(a[3 * i + k] * b[3 * k + j] for k in range(3)) for i in range(3) for j in range(3)]


def random_rotation(rng, cls=None):
    """B matrix (row-major) of a proper rotation; classes: id, perm (signed permutation), pyth, generic; on request
    (cls='mirror') an improper orthogonal matrix"""
    cls = cls or rng.choice(['id', 'perm', 'perm', 'pyth', 'generic'])
    if cls == 'id':
        return list(map(float, D.IDENT)), cls
    if cls == 'perm':
        import itertools
        while True:
            p = rng.choice(list(itertools.permutations(range(3))))
            sg = [rng.choice([1, -1]) for _ in range(3)]
            m = [0.0] * 9
            for i in range(3):
                m[3 * i + p[i]] = float(sg[i])
            det = (m[0] * (m[4] * m[8] - m[5] * m[7]) - m[1] * (m[3] * m[8] - m[5] * m[6]) + m[2] * (m[3] * m[7] - m[4] * m[6]))
            if det > 0:
                return m, cls
    if cls == 'mirror':
        # an orthogonal matrix of determinant -1 (left-handed auxiliary frame): one axis of a proper rotation flipped.
        # Only ever written with all nine entries.
        base, _ = random_rotation(rng, rng.choice(['id', 'perm', 'pyth', 'generic']))
        k = rng.randrange(3)
        return [(-x if i // 3 == k else x) + 0.0 for i, x in enumerate(base)], cls
    if cls == 'pyth':
        c, s = rng.choice([(0.6, 0.8), (0.8, 0.6), (-0.6, 0.8), (0.28, 0.96), (0.0, 1.0)])
        return [float(x) for x in rot_axis(rng.randrange(3), c, s)], cls
    m = list(map(float, D.IDENT))
    for _ in range(3):
        ang = math.radians(rng.choice([15, 30, 45, 60, 75, 105, 120, 150, 210, 240, 300, 37.5]))
        m = matmul(m, rot_axis(rng.randrange(3), math.cos(ang), math.sin(ang)))
    return m, cls


def random_motion(rng, cls=None, translate=True):
    b, cls = random_rotation(rng, cls)
    o = [rng.choice(HALF) for _ in range(3)] if translate else [0.0, 0.0, 0.0]
    return D.Motion(o, b), cls


# ---------------------------------------------------------------- BSP partitions

class BSP:
    """node = ('leaf', cellIndex) | ('split', ref, neg, pos) with ref = ('s', n) | ('f', n, k)"""


def gen_bsp(rng, refs, depth, ncells):
    if depth == 0 or rng.random() < 0.15:
        return ('leaf', rng.randrange(ncells))
    ref = rng.choice(refs)
    return ('split', ref, gen_bsp(rng, refs, depth - 1, ncells), gen_bsp(rng, refs, depth - 1, ncells))


def bsp_cells(t):
    if t[0] == 'leaf':
        return {t[1]}
    return bsp_cells(t[2]) | bsp_cells(t[3])


def signed(ref, positive):
    if ref[0] == 's':
        return ('s', ref[1] if positive else -ref[1])
    return ('f', ref[1] if positive else -ref[1], ref[2])


def region_expr(t, c, rng):
    """expression of the part of cell c inside subtree t; None if empty; True if everything"""
    if t[0] == 'leaf':
        return True if t[1] == c else None
    _, ref, neg, pos = t
    en = region_expr(neg, c, rng)
    ep = region_expr(pos, c, rng)
    parts = []
    for e, positive in ((en, False), (ep, True)):
        if e is None:
            continue
        lit = signed(ref, positive)
        if e is True:
            parts.append(lit)
        else:
            parts.append(('i', lit, e) if rng.random() < 0.7 else ('i', e, lit))
    if not parts:
        return None
    if en is True and ep is True:
        return True
    if len(parts) == 1:
        return parts[0]
    if rng.random() < 0.5:
        parts.reverse()
    return ('u', parts[0], parts[1])


def negate(e):
    """De Morgan dual of a complement-free expression"""
    t = e[0]
    if t == 's':
        return ('s', -e[1])
    if t == 'f':
        return ('f', -e[1], e[2])
    if t == 'i':
        return ('u', negate(e[1]), negate(e[2]))
    if t == 'u':
        return ('i', negate(e[1]), negate(e[2]))
    if t == 'c':
        return e[1]
    raise ValueError(t)


def has_cc(e):
    t = e[0]
    if t == 'cc':
        return True
    if t in ('s', 'f'):
        return False
    if t == 'c':
        return has_cc(e[1])
    return has_cc(e[1]) or has_cc(e[2])


def obfuscate(e, rng, p=0.25, allow_nested_cc=False):
    """semantics-preserving rewriting"""
    t = e[0]
    if t in ('i', 'u'):
        a = obfuscate(e[1], rng, p, allow_nested_cc)
        b = obfuscate(e[2], rng, p, allow_nested_cc)
        e = (t, a, b)
        if rng.random() < p / 2:      # re-associate  (a∘b)∘c → a∘(b∘c)
            if a[0] == t:
                e = (t, a[1], (t, a[2], b))
        if rng.random() < p / 3:      # repeat an operand (idempotence)
            e = (t, e, a if rng.random() < 0.5 else b)
    if t != 'cc' and rng.random() < p and (allow_nested_cc or not has_cc(e)):
        if not has_cc(e):
            return ('c', negate(e)) if e[0] != 'c' else e
    return e


def world_and_cells(rng, refs, ncells=3, depth=3, p_obf=0.25, use_cc=True, mats=(0, 1, 2)):
    """returns list of (expr, meta) for `ncells` cells partitioning space (some may be absent)"""
    t = gen_bsp(rng, refs, depth, ncells)
    present = sorted(bsp_cells(t))
    exprs = {}
    for c in present:
        e = region_expr(t, c, rng)
        exprs[c] = e
    return t, exprs


def build_flat_deck(rng, nsurf=None, ncells=None, depth=None, macro_p=0.25, tr_p=0.0, p_obf=0.25,
                    kinds=None, mkinds=None, imp0_p=0.25, use_cc=True):
    """deck without universes whose cells partition space"""
    d = D.Deck()
    nsurf = nsurf or rng.randint(1, 6)
    trnum = 0
    for i in range(1, nsurf + 1):
        if rng.random() < macro_p:
            mn, ps = macrobody(rng, mkinds)
        else:
            mn, ps = elementary(rng, kinds)
        s = D.Surf(i, mn, ps)
        if rng.random() < tr_p:
            m, cls = random_motion(rng)
            trnum += 1
            num = trnum * 3 + 1
            d.trs[num] = (m, {'star': False, 'cls': cls})
            s.tr, s.trnum = m, num
        d.surfs.append(s)
    refs = []
    for s in d.surfs:
        refs.append(('s', s.id))
        if s.mn in MACRO_NFACETS or s.mn == 'arb':
            nf = nfacets(s.mn, s.ps)
            for _ in range(2):
                refs.append(('f', s.id, rng.randint(1, nf)))
    ncells = ncells or rng.randint(1, 5)
    depth = depth if depth is not None else rng.randint(1, 4)
    t, exprs = world_and_cells(rng, refs, ncells, depth)
    ids = rng.sample(range(1, 60) if rng.random() < 0.7 else range(1, len(exprs) + 3), len(exprs))
    idmap = dict(zip(sorted(exprs), ids))
    order = sorted(exprs)
    rng.shuffle(order)
    # one cell may be expressed as the complement of all the others
    cc_cell = None
    if use_cc and len(order) >= 2 and rng.random() < 0.4:
        cc_cell = order[-1]
    for c in order:
        e = exprs[c]
        if e is True:
            # whole space: s or -s … use  (s : -s)
            r = refs[0]
            e = ('u', signed(r, True), signed(r, False))
        if c == cc_cell:
            others = [('cc', idmap[o]) for o in order if o != c]
            rng.shuffle(others)
            ee = others[0]
            for o in others[1:]:
                ee = ('i', ee, o)
            e = ee
        else:
            e = obfuscate(e, rng, p_obf)
            if use_cc and rng.random() < 0.15 and len(order) >= 2:
                # intersect with the complement of another (disjoint) cell: no change of meaning
                o = rng.choice([x for x in order if x != c and x != cc_cell] or [None])
                if o is not None and order.index(o) != order.index(c):
                    e = ('i', e, ('cc', idmap[o])) if rng.random() < .5 else ('i', ('cc', idmap[o]), e)
        mat = rng.choice([0, 1, 1, 2])
        rho = None if mat == 0 else rng.choice(['-2.7', '-1.0', '0.05', '-7.8', '1.2-2', '-2.70'])
        imp = 0 if rng.random() < imp0_p else rng.choice([1, 1, 2, 0.5])
        d.cells.append(D.Cell(idmap[c], e, mat=mat, rho=rho, imp=imp))
    if all(c.imp == 0 for c in d.cells):
        d.cells[0].imp = 1
    # '#n' chains must be acyclic: a cell that references #o where o references … the cc_cell
    _break_cc_cycles(d)
    d.mats = {1: [('13027', '1.0')], 2: [('26056', '-0.9'), ('6012', '-0.1')]}
    if rng.random() < 0.25:
        # surface numbers just above the largest cell number: the range in which the converter allocates its own
        # numbers (tree nodes, helper volumes, generated cells) — a user surface may carry any of them
        top = max(c.id for c in d.cells)
        off = top + rng.randint(0, 3)
        m = {s.id: s.id + off for s in d.surfs}
        if rng.random() < 0.5:
            step = rng.randint(2, 4)
            m = {s.id: off + 1 + (s.id - 1) * step for s in d.surfs}
        for s in d.surfs:
            s.id = m[s.id]
        for c in d.cells:
            c.expr = D.expr_map_surfs(c.expr, m)
    return d


def _refs_cc(e):
    t = e[0]
    if t == 'cc':
        return {e[1]}
    if t in ('s', 'f'):
        return set()
    if t == 'c':
        return _refs_cc(e[1])
    return _refs_cc(e[1]) | _refs_cc(e[2])


def _strip_cc(e, bad):
    t = e[0]
    if t in ('i', 'u'):
        a, b = _strip_cc(e[1], bad), _strip_cc(e[2], bad)
        if a is None:
            return b
        if b is None:
            return a
        return (t, a, b)
    if t == 'cc' and e[1] in bad:
        return None
    return e


def _break_cc_cycles(d):
    """keep '#o' references acyclic: a cell may only refer to cells of lower rank in a random order
    (nested chains '#a' → '#b' → … stay); the cell written purely as complements of all the others
    ranks last"""
    pure_cc = [c.id for c in d.cells if not D.expr_leaves(c.expr)]
    ids = [c.id for c in d.cells if c.id not in pure_cc]
    import random as _r
    rr = _r.Random(sum(ids) * 7919 + len(ids))
    rr.shuffle(ids)
    rank = {cid: i for i, cid in enumerate(ids + pure_cc)}
    for c in d.cells:
        bad = {o for o in _refs_cc(c.expr) if rank.get(o, 1 << 30) >= rank[c.id]}
        if bad:
            e = _strip_cc(c.expr, bad)
            if e is None:      # cannot happen for cells that have surface leaves
                e = c.expr
            c.expr = e


def sample_points(rng, n, box=9.0):
    pts = []
    for i in range(n):
        m = rng.random()
        if m < 0.5:
            pts.append([rng.uniform(-box, box) for _ in range(3)])
        elif m < 0.8:
            pts.append([rng.choice(HALF) + rng.choice([-0.25, 0.25, 0.125, -0.37]) for _ in range(3)])
        else:
            pts.append([rng.gauss(0, 3) for _ in range(3)])
    return pts


def vary_mats(d, rng, p=0.5):
    """more varied material cards: extra nuclides, among them nuclides with a zero amount (depletion-style
    placeholders, still nuclides of the card), in the sign convention of the card"""
    extra = ['92235', '92238', '94239', '8016', '1001', '5010', '40000', '6000']
    for num, comp in d.mats.items():
        if rng.random() > p or not comp or comp[0][1] == '':
            continue
        neg = comp[0][1].lstrip().startswith('-')
        have = set(z for z, _ in comp)
        for z in rng.sample(extra, rng.randint(1, 3)):
            if z in have:
                continue
            f = rng.choice(['0', '0.0', '0.000', '0.', '1e-3', '0.05', '2.5-2'])
            comp.insert(rng.randint(0, len(comp)), (z, ('-' if neg else '') + f))


def complement_chain_deck(rng):
    """nested regions written with cell complements of cell complements: cell i = inside S_i and outside every inner
    cell (#1 … #(i-1)), the outermost cell as the complement of all the others; the cards in any order, so that a
    complement may refer to a cell defined further down whose own expression contains complements"""
    d = D.Deck()
    n = rng.randint(2, 5)
    kind = rng.choice(['so', 'cz', 'slab'])
    ids = rng.sample(range(1, 40), n + 1)
    for i in range(1, n + 1):
        if kind == 'so':
            d.surfs.append(D.Surf(i, 'so', [float(i) + 0.5]))
        elif kind == 'cz':
            d.surfs.append(D.Surf(i, 'cz', [float(i) * 0.75 + 0.25]))
        else:
            d.surfs.append(D.Surf(i, 'px', [float(i) - 2.5]))
    cells = []
    for i in range(1, n + 1):
        e = ('s', -i)
        inner = [('cc', ids[j - 1]) for j in range(1, i)]
        # the complements of the directly enclosed cell suffice only together with those of all the cells inside it
        if rng.random() < 0.5:
            rng.shuffle(inner)
        for c_ in inner:
            e = ('i', e, c_) if rng.random() < 0.7 else ('i', c_, e)
        cells.append(D.Cell(ids[i - 1], e, mat=rng.choice([1, 2]), rho=rng.choice(['-1.0', '-2.7', '0.05'])))
    outs = [('cc', k) for k in ids[:n]]
    rng.shuffle(outs)
    e = outs[0]
    for c_ in outs[1:]:
        e = ('i', e, c_)
    cells.append(D.Cell(ids[n], e, mat=0, imp=rng.choice([0, 1])))
    m = rng.random()
    if m < 0.4:
        cells.reverse()
    elif m < 0.8:
        rng.shuffle(cells)
    d.cells = cells
    d.mats = {1: [('13027', '1.0')], 2: [('26056', '-0.9'), ('6012', '-0.1')]}
    return d


def union_complement_deck(rng):
    """a cell that is a chain of three or more unions (of half-spaces and small intersections), and the cells around it
    written with its complement #n: the complement of a union chain is the intersection of ALL the complemented
    operands"""
    d = D.Deck()
    n = rng.randint(3, 5)
    for i in range(1, n + 1):
        if rng.random() < 0.6:
            d.surfs.append(D.Surf(i, 's', [rng.choice(HALF), rng.choice(HALF), rng.choice([-1.0, 0.0, 1.5]), rng.choice([1.0, 1.5, 2.5])]))
        else:
            d.surfs.append(D.Surf(i, rng.choice(['px', 'py', 'pz']), [rng.choice(HALF)]))
    d.surfs.append(D.Surf(n + 1, 'so', [7.5]))
    ops = []
    for i in range(1, n + 1):
        lit = ('s', -i if d.surfs[i - 1].mn == 's' or rng.random() < 0.5 else i)
        if rng.random() < 0.25 and i > 1:
            lit = ('i', lit, ('s', rng.choice([1, -1]) * rng.randint(1, i - 1)))
        ops.append(lit)
    e = ops[0]
    for o in ops[1:]:
        e = ('u', e, o) if rng.random() < 0.8 else ('u', o, e)
    ids = rng.sample(range(1, 30), 3)
    c1 = Cell_(ids[0], ('i', e, ('s', -(n + 1))) if rng.random() < 0.5 else e, 1)
    inner_is_clipped = c1.expr[0] == 'i' and c1.expr[2] == ('s', -(n + 1))
    c2e = ('i', ('cc', ids[0]), ('s', -(n + 1))) if rng.random() < 0.6 else ('i', ('s', -(n + 1)), ('cc', ids[0]))
    c2 = Cell_(ids[1], c2e, 2)
    rest = ('s', n + 1) if inner_is_clipped else ('i', ('s', n + 1), ('cc', ids[0]))
    c3 = D.Cell(ids[2], rest, mat=0, imp=0)
    cells = [c1, c2, c3]
    rng.shuffle(cells)
    d.cells = cells
    d.mats = {1: [('13027', '1.0')], 2: [('26056', '-0.9'), ('6012', '-0.1')]}
    return d


def Cell_(cid, expr, mat):
    return D.Cell(cid, expr, mat=mat, rho='-1.0' if mat == 1 else '-2.0')


def contradictory_union_deck(rng):
    """unions whose members become patently empty only once identical surfaces under different numbers have been merged
    (zero-thickness slabs between two cards of the same plane, a sphere shell between two cards of the same sphere),
    alone or next to a real region; surface numbers scattered so that the converter's own numbers vary from deck to deck"""
    d = D.Deck()
    ids = sorted(rng.sample(range(1, 45), 12))
    it = iter(ids)
    members = []
    nslab = rng.randint(1, 3)
    for _ in range(nslab):
        a, b = next(it), next(it)
        kind = rng.choice(['px', 'py', 'pz', 'so'])
        if kind == 'so':
            r = rng.choice([2.0, 3.0, 4.5])
            d.surfs += [D.Surf(a, 'so', [r]), D.Surf(b, rng.choice(['so', 's']), [r])]
            if d.surfs[-1].mn == 's':
                d.surfs[-1].ps = [0.0, 0.0, 0.0, r]
            members.append(('i', ('s', a), ('s', -b)))
        else:
            v = rng.choice(HALF)
            ax = 'xyz'.index(kind[1])
            n = [0.0, 0.0, 0.0]
            n[ax] = 1.0
            second = D.Surf(b, kind, [v]) if rng.random() < 0.5 else D.Surf(b, 'p', n + [v])
            d.surfs += [D.Surf(a, kind, [v]), second]
            members.append(('i', ('s', a), ('s', -b)) if rng.random() < 0.7 else ('i', ('s', -b), ('s', a)))
    sreal, sworld = next(it), next(it)
    d.surfs.append(D.Surf(sreal, 's', [rng.choice(HALF), rng.choice(HALF), 0.5, rng.choice([1.0, 1.5, 2.0])]))
    d.surfs.append(D.Surf(sworld, 'so', [8.5]))
    with_real = rng.random() < 0.6
    ops = list(members) + ([('s', -sreal)] if with_real else [])
    rng.shuffle(ops)
    e = ops[0]
    for o in ops[1:]:
        e = ('u', e, o)
    cids = rng.sample(range(1, 30), 3)
    c1 = D.Cell(cids[0], e, mat=1, rho='-1.0')
    c2 = D.Cell(cids[1], ('i', ('cc', cids[0]), ('s', -sworld)) if with_real else ('s', -sworld), mat=2, rho='-2.0')
    c3 = D.Cell(cids[2], ('s', sworld), mat=0, imp=0)
    cells = [c1, c2, c3]
    rng.shuffle(cells)
    d.cells = cells
    d.mats = {1: [('13027', '1.0')], 2: [('26056', '-0.9'), ('6012', '-0.1')]}
    return d


def aux_plane_deck(rng):
    """a deck whose output shows the converter's two auxiliary union planes (a union none of whose members is a surface
    or a plain intersection of surfaces) and that has a plane of its own at x = +1 or x = -1, where the auxiliary planes
    are usually put: which planes are written, and under which numbers, must not depend on anything but the deck"""
    d = D.Deck()
    ids = sorted(rng.sample(range(1, 40), 8))
    x = rng.choice([1.0, -1.0])
    first = rng.choice(['px', 'p', 'rpp', 'px'])
    if first == 'px':
        d.surfs.append(D.Surf(ids[0], 'px', [x]))
    elif first == 'p':
        d.surfs.append(D.Surf(ids[0], 'p', [1.0, 0.0, 0.0, x]))
    else:
        d.surfs.append(D.Surf(ids[0], 'rpp', [min(x, x + 3.0 * x), max(x, x + 3.0 * x), -2.5, 2.5, -3.5, 3.5]))
    d.surfs.append(D.Surf(ids[1], 'so', [rng.choice([4.5, 6.0])]))
    d.surfs.append(D.Surf(ids[2], 'cz', [rng.choice([2.0, 3.5])]))
    d.surfs.append(D.Surf(ids[3], 'py', [rng.choice([0.5, -1.5, 2.5])]))
    d.surfs.append(D.Surf(ids[4], 'pz', [rng.choice([0.5, -2.5, 3.5])]))
    d.surfs.append(D.Surf(ids[5], 's', [rng.choice(HALF), 0.5, rng.choice(HALF), 2.0]))
    d.surfs.append(D.Surf(ids[6], 'cx', [1.5]))
    d.surfs.append(D.Surf(ids[7], 'so', [9.5]))
    sg = lambda i: ('s', ids[i] if rng.random() < 0.5 else -ids[i])   # noqa
    def member():
        a, b, c = rng.sample(range(0, 7), 3)
        return ('i', ('u', sg(a), sg(b)), sg(c)) if rng.random() < 0.5 else ('i', sg(c), ('u', sg(a), sg(b)))
    e = member()
    for _ in range(rng.randint(1, 2)):
        e = ('u', e, member())
    cids = rng.sample(range(1, 30), 3)
    c1 = D.Cell(cids[0], ('i', e, ('s', -ids[7])), mat=1, rho='-1.0')
    c2 = D.Cell(cids[1], ('i', ('cc', cids[0]), ('s', -ids[7])), mat=2, rho='-2.0')
    c3 = D.Cell(cids[2], ('s', ids[7]), mat=0, imp=0)
    cells = [c1, c2, c3]
    rng.shuffle(cells)
    d.cells = cells
    d.mats = {1: [('13027', '1.0')], 2: [('26056', '-0.9'), ('6012', '-0.1')]}
    return d


def round_mats(d, rng):
    """material numbers of several digits, ending in zero, with a leading digit shared by another material (10, 100, 20,
    1000 next to 1 and 2): the card `m10`, the cells' material entry and everything derived from them"""
    pool = rng.sample([10, 20, 100, 1000, 30, 12, 101, 7, 200], 3)
    ren = {}
    for old_, new_ in zip(sorted(d.mats), pool):
        if rng.random() < 0.7:
            ren[old_] = new_
    if not ren:
        return
    d.mats = {ren.get(k, k): v for k, v in d.mats.items()}
    for c in d.cells:
        if c.mat in ren:
            c.mat = ren[c.mat]
        raw = c.hints.get('raw')
        if raw is not None and 'mat=' in raw.lower():
            c.hints['raw'] = re_sub_mat(raw, ren)


def re_sub_mat(raw, ren):
    import re as _re
    return _re.sub(r'(?i)(mat=)(\d+)', lambda m: m.group(1) + str(ren.get(int(m.group(2)), int(m.group(2)))), raw)


def twin_block_deck(rng):
    """two cells (or two members of one union) that are the same intersection but for one surface, taken with the negative
    sense: number 1 in one, number 2 in the other (two pins between the same planes) — lists that a hash cannot tell apart"""
    d = D.Deck()
    a, b = (1, 2) if rng.random() < 0.8 else tuple(rng.sample(range(3, 9), 2))
    others = rng.sample(range(10, 30), 3)
    kind = rng.choice(['cz', 'so', 'c/z'])
    if kind == 'cz':
        d.surfs += [D.Surf(a, 'c/z', [-2.5, 0.5, 1.0]), D.Surf(b, 'c/z', [2.5, 0.5, 1.5])]
    elif kind == 'so':
        d.surfs += [D.Surf(a, 's', [-2.5, 0.0, 0.5, 1.0]), D.Surf(b, 's', [2.5, 0.5, 0.0, 1.5])]
    else:
        d.surfs += [D.Surf(a, 'c/z', [-3.0, -1.5, 1.25]), D.Surf(b, 'cz', [1.0])]
    d.surfs += [D.Surf(others[0], 'pz', [-3.5]), D.Surf(others[1], 'pz', [3.5]), D.Surf(others[2], 'so', [9.5])]
    lo, hi, w = others
    blk = lambda s_: ('i', ('i', ('s', -s_), ('s', lo)), ('s', -hi))   # noqa
    order = [a, b] if rng.random() < 0.5 else [b, a]
    cids = rng.sample(range(1, 40), 4)
    if rng.random() < 0.5:
        cells = [D.Cell(cids[0], blk(order[0]), mat=1, rho='-1.0'), D.Cell(cids[1], blk(order[1]), mat=2, rho='-2.0'),
                 D.Cell(cids[2], ('i', ('i', ('cc', cids[0]), ('cc', cids[1])), ('s', -w)), mat=3, rho='-3.0')]
    else:
        cells = [D.Cell(cids[0], ('u', blk(order[0]), blk(order[1])), mat=1, rho='-1.0'),
                 D.Cell(cids[2], ('i', ('cc', cids[0]), ('s', -w)), mat=3, rho='-3.0')]
    cells.append(D.Cell(cids[3], ('s', w), mat=0, imp=0))
    rng.shuffle(cells)
    d.cells = cells
    d.mats = {1: [('13027', '1.0')], 2: [('26056', '-0.9'), ('6012', '-0.1')], 3: [('1001', '2'), ('8016', '1')]}
    return d


def deep_cell_deck(rng):
    """a cell written as the intersection of more than a hundred half-spaces (a detector model exported from CAD): the
    converter's recursive passes go that deep.  Either the long cell itself at level 0, or a universe that contains such
    a cell and fills a sphere (the case where inlining has something to decide)"""
    d = D.Deck()
    if rng.random() < 0.5:
        n = rng.choice([300, 300, 260])
        for k in range(1, n + 1):
            d.surfs.append(D.Surf(k, 'px', [float(k)]))
        e = ('s', -1)
        for k in range(2, n + 1):
            e = ('i', e, ('s', -k))
        d.cells = [D.Cell(1, e, mat=0), D.Cell(2, ('s', 1), mat=0, imp=0)]
        d.mats = {}
        return d
    n = rng.choice([130, 140, 150, 160])
    for k in range(1, n + 1):
        d.surfs.append(D.Surf(k, 'px', [float(k)]))
    w = 900
    d.surfs.append(D.Surf(w, 'so', [500.0]))
    e = ('s', -1)
    for k in range(2, n + 1):
        e = ('i', e, ('s', -k))
    d.cells = [D.Cell(1, e, mat=1, rho='-1.0', u=1), D.Cell(2, ('s', 1), mat=2, rho='-2.0', u=1),
               D.Cell(3, ('s', -w), mat=0, fill={'u': 1, 'tr': None}), D.Cell(4, ('s', w), mat=0, imp=0)]
    d.mats = {1: [('1001', '1')], 2: [('8016', '1')]}
    d._always_fresh = True      # (C18: always compared with a fresh interpreter)
    return d


def big_surface_ids(d, rng):
    """some surfaces (macrobodies first) get six- to eight-digit numbers, as MCNP6 allows: facet references such as
    123456.3 then need more digits than a careless number format keeps"""
    if any(c.hints.get('raw') for c in d.cells) or any(s.trnum for s in d.surfs if False):
        return
    m = {s.id: s.id for s in d.surfs}
    used = set(m)
    cands = sorted(d.surfs, key=lambda s_: (s_.mn not in MACRO_NFACETS and s_.mn != 'arb', rng.random()))
    for s_ in cands[:rng.randint(1, 2)]:
        new = rng.choice([123456, 234567, 1234567, 99999999, 500001, 7654321]) + rng.randint(0, 3)
        if new not in used:
            m[s_.id] = new
            used.add(new)
    for s_ in d.surfs:
        s_.id = m[s_.id]
    for c in d.cells:
        c.expr = D.expr_map_surfs(c.expr, m)
