"""Generators for decks with universes, FILL, TRCL, lattices (C04–C07, C09, C13)."""
import math
from . import deck as D
from . import gen_geom as G


def _add_surfaces(d, rng, n, macro_p, tr_p, kinds=None, mkinds=None):
    first = max([s.id for s in d.surfs], default=0) + 1
    out = []
    for i in range(first, first + n):
        if rng.random() < macro_p:
            mn, ps = G.macrobody(rng, mkinds)
        else:
            mn, ps = G.elementary(rng, kinds)
        s = D.Surf(i, mn, ps)
        if rng.random() < tr_p:
            m, cls = G.random_motion(rng)
            num = max(d.trs, default=0) + rng.choice([1, 2, 5])
            d.trs[num] = (m, {'star': rng.random() < 0.3 and cls not in ('generic', 'mirror'), 'cls': cls})
            s.tr, s.trnum = m, num
        d.surfs.append(s)
        out.append(s)
    return out


def _refs(surfs, rng):
    refs = []
    for s in surfs:
        refs.append(('s', s.id))
        if s.mn in G.MACRO_NFACETS or s.mn == 'arb':
            nf = G.nfacets(s.mn, s.ps)
            refs.append(('f', s.id, rng.randint(1, nf)))
    return refs


def _partition(d, rng, refs, ncells, depth, universe, next_id, p_obf=0.15):
    """add cells partitioning space in `universe`; returns the new cells"""
    t, exprs = G.world_and_cells(rng, refs, ncells, depth)
    cells = []
    for c in sorted(exprs):
        e = exprs[c]
        if e is True:
            r = refs[0]
            e = ('u', G.signed(r, True), G.signed(r, False))
        else:
            e = G.obfuscate(e, rng, p_obf)
        mat = rng.choice([0, 1, 2, 3])
        rho = None if mat == 0 else rng.choice(['-2.7', '-1.0', '0.05', '-7.8', '1.2-2', '-2.70', '-1.', '-1.00', '5-2', '-2.7e0'])
        # inside a universe the importance written on a cell is immaterial to the conversion (the generated cells take
        # the importance of the level-0 container): zero must not make the cell vanish
        imp = 1 if universe == 0 or rng.random() > 0.15 else 0
        cell = D.Cell(next_id[0], e, mat=mat, rho=rho, imp=imp, u=universe)
        next_id[0] += rng.choice([1, 1, 2, 3])
        cells.append(cell)
        d.cells.append(cell)
    return cells


def _spell_motion(d, rng, m, cls, cell, kind):
    """choose how a TRCL / FILL transformation is written: by TR number, inline, or starred inline"""
    how = rng.choice(['num', 'inline', 'inline', 'star'])
    if how == 'star' and cls in ('generic', 'mirror'):
        how = 'inline'
    if how == 'num':
        num = max(d.trs, default=0) + rng.choice([1, 3])
        d.trs[num] = (m, {'star': rng.random() < 0.3 and cls not in ('generic', 'mirror'), 'cls': cls})
        cell.hints[kind + '_num'] = num
    elif how == 'star':
        cell.hints[kind + '_star'] = True


def build_universe_deck(rng, **kw):
    """universe graphs must be acyclic (MCNP forbids a universe that contains itself): redraw otherwise"""
    for _ in range(20):
        d = _build_universe_deck(rng, **kw)
        if not _cyclic(d):
            return d
    kw = dict(kw, lattice_p=0.0, reuse_p=0.0)
    return _build_universe_deck(rng, **kw)


def _cyclic(d):
    graph = {}
    for c in d.cells:
        if c.fill is not None:
            us = c.fill['us'] if 'us' in c.fill else [c.fill['u']]
            graph.setdefault(c.u, set()).update(v for v in us if v and (v != c.u or not c.lat))
    state = {}

    if any(u in vs for u, vs in graph.items()):
        return True

    def visit(u):
        if state.get(u) == 1:
            return True
        if state.get(u) == 2:
            return False
        state[u] = 1
        for v in graph.get(u, ()):
            if visit(v):
                return True
        state[u] = 2
        return False
    return any(visit(u) for u in list(graph))


def _build_universe_deck(rng, depth=None, macro_p=0.15, tr_p=0.1, fill_tr_p=0.6, trcl_p=0.3, reuse_p=0.4,
                        rot_classes=None, lattice_p=0.0, lat_kind=None, lat_tr_p=0.0, lat_trcl_p=0.0, lat_big_p=0.0):
    d = D.Deck()
    next_id = [rng.randint(1, 9)]
    depth = depth if depth is not None else rng.randint(1, 3)
    nuniv = [0]

    def new_universe(level, host=None):
        nuniv[0] += 1
        u = nuniv[0] * rng.choice([1, 1, 2]) + (10 if rng.random() < .3 else 0)
        while any(c.u == u for c in d.cells) or u == 0:
            u += 1
        if lattice_p and rng.random() < lattice_p:
            from . import gen_lat
            gen_lat.add_lattice_universe(d, rng, u, next_id, lambda: new_universe(level + 1) if level < depth else None,
                                         kind=lat_kind, lat_tr_p=lat_tr_p, lat_trcl_p=lat_trcl_p,
                                         rot_classes=rot_classes, big_p=lat_big_p)
            return u
        surfs = _add_surfaces(d, rng, rng.randint(1, 3), macro_p, tr_p)
        refs = _refs(surfs, rng)
        if host is not None and rng.random() < 0.3:
            # the universe is also cut by a surface of the cell it fills (the same card, read in the universe's own
            # frame): "the rest of the world" cells of a universe are often written with the container's surface
            shared = [('s', abs(l[1])) for l in D.expr_leaves(host.expr) if l[0] == 's']
            if shared:
                refs.append(rng.choice(shared))
        cells = _partition(d, rng, refs, rng.randint(1, 3), rng.randint(1, 2), u, next_id)
        if level < depth:
            for c in cells:
                if rng.random() < 0.4:
                    make_filled(c, level + 1)
        return u

    universes = []
    first_fill = {}  # universe -> (first container with a FILL transformation, class of the rotation)
    by_trcl = {}     # universe -> True: every container of it has no FILL transformation and is placed by its own TRCL

    def make_filled(c, level):
        if universes and rng.random() < reuse_p:
            u = rng.choice(universes)
            # do not create cycles: only reuse universes that do not (transitively) contain c's universe
            if _reaches(d, u, c.u):
                u = new_universe(level, host=c)
        else:
            u = new_universe(level, host=c)
        universes.append(u)
        if u not in by_trcl:
            by_trcl[u] = reuse_p > 0 and rng.random() < 0.3
        p_ft, p_tc = (0.0, 0.75) if by_trcl[u] else (fill_tr_p, trcl_p)
        c.mat, c.rho = 0, None
        c.fill = {'u': u, 'tr': None}
        prev = first_fill.get(u)
        if prev is not None and prev[0].fill.get('tr') is not None and not by_trcl[u] and rng.random() < 0.6:
            # the same universe placed twice by transformations that differ in one displacement only, by the pair
            # -1 / -2 (two neighbouring positions of a rack): equal for anything that compares them through hash()
            m0, cls0 = prev[0].fill['tr'], prev[1]
            k = rng.randrange(3)
            m0.o[k] = -1.0
            m = D.Motion(list(m0.o), list(m0.b))
            m.o[k] = -2.0
            c.fill['tr'] = m
            _spell_motion(d, rng, m, cls0, c, 'fill')
            return
        if rng.random() < p_ft:
            m, cls = G.random_motion(rng, rng.choice(rot_classes) if rot_classes else ('mirror' if rng.random() < 0.1 else None))
            if rng.random() < 0.12:
                # an explicit identity FILL transformation still takes precedence over the cell's TRCL
                m, cls = D.Motion([0.0, 0.0, 0.0], list(D.IDENT)), 'id'
            c.fill['tr'] = m
            _spell_motion(d, rng, m, cls, c, 'fill')
            first_fill.setdefault(u, (c, cls))
        if rng.random() < p_tc:
            m, cls = G.random_motion(rng, rng.choice(rot_classes) if rot_classes else ('mirror' if rng.random() < 0.1 else None))
            c.trcl = m
            _spell_motion(d, rng, m, cls, c, 'trcl')

    surfs0 = _add_surfaces(d, rng, rng.randint(1, 4), macro_p, tr_p)
    cells0 = _partition(d, rng, _refs(surfs0, rng), rng.randint(2, 4), rng.randint(1, 3), 0, next_id)
    nfill = 0
    for c in cells0:
        if rng.random() < 0.6 or nfill == 0:
            make_filled(c, 1)
            nfill += 1
        else:
            c.imp = rng.choice([1, 1, 0, 2])
            if rng.random() < trcl_p / 2 and not D.expr_leaves(c.expr) == []:
                pass
    if all(c.imp == 0 for c in cells0):
        cells0[0].imp = 1
    d.mats = {1: [('13027', '1.0')], 2: [('26056', '-0.9'), ('6012', '-0.1')], 3: [('1001', '2'), ('8016', '1')]}
    # cells of universe ≠ 0 come after / mixed with level-0 cells in the file: shuffle card order
    if rng.random() < 0.5:
        rng.shuffle(d.cells)
    return d


def _reaches(d, u_from, u_target, seen=None):
    """does universe u_from (transitively) contain a cell filled with u_target?"""
    if u_from == u_target:
        return True
    seen = seen or set()
    if u_from in seen:
        return False
    seen.add(u_from)
    for c in d.cells:
        if c.u == u_from and c.fill is not None:
            us = c.fill['us'] if 'us' in c.fill else [c.fill['u']]
            for v in us:
                if v and v != c.u and _reaches(d, v, u_target, seen):
                    return True
    return False
