"""Line-protocol client for the Lean driver (model + spec evaluators)."""
import os
import subprocess

VERIF = os.path.dirname(os.path.dirname(os.path.abspath(__file__)))
LEAN_DIR = os.path.join(VERIF, 'lean')
EXE = os.path.join(LEAN_DIR, '.lake', 'build', 'bin', 'driver')


def hx(s):
    return s.encode('utf-8').hex() or '-'


def unhx(s):
    if s == '-':
        return ''
    return bytes.fromhex(s).decode('utf-8')


class Driver:
    def __init__(self):
        if os.path.exists(EXE):
            cmd = [EXE]
        else:
            cmd = ['lake', 'env', 'lean', '--run', 'Driver.lean']
        self.p = subprocess.Popen(cmd, cwd=LEAN_DIR, stdin=subprocess.PIPE, stdout=subprocess.PIPE,
                                  text=True, bufsize=1)
        r = self.ask('ping')
        if r != 'ok pong':
            raise RuntimeError('driver does not answer: %r' % r)

    def ask(self, line):
        self.p.stdin.write(line + '\n')
        self.p.stdin.flush()
        r = self.p.stdout.readline()
        if not r:
            raise RuntimeError('driver died on: ' + line[:200])
        return r.rstrip('\n')

    def ask_many(self, lines):
        """pipeline a batch (avoids round-trip latency)"""
        import threading
        out = []
        def reader():
            for _ in lines:
                r = self.p.stdout.readline()
                out.append(r.rstrip('\n'))
        t = threading.Thread(target=reader)
        t.start()
        for l in lines:
            self.p.stdin.write(l + '\n')
        self.p.stdin.flush()
        t.join()
        return out

    def close(self):
        try:
            self.p.stdin.close()
            self.p.wait(timeout=5)
        except Exception:
            self.p.kill()
